"""C17 — restriction propagation preserves two-sided integrands.

Functions under contract: every handler of RestrictionPropagator (_require_restriction, _default_restricted, _opposite,
_ignore_restriction, restricted, reference_value, coefficient, facet_normal, variable, operator) and apply_restrictions.

Two-world semantics: every side-dependent atom has a '+' and a '-' value; continuity constraints from the statement:
H1 coefficients, the spatial coordinate and facet-intrinsic quantities agree across the facet; the facet normal flips sign on
affine non-manifold meshes; derivatives of any terminal are one-sided.
Contract: den(propagated) == den(original) under these constraints; every side-dependent terminal ends up wrapped by exactly
one Restricted node, nothing else is restricted; missing and double restrictions raise.
"""
from __future__ import annotations

import itertools

import ufl
import ufl.classes as C
from ufl import avg, grad, inner, jump, dot, variable, conditional, lt, as_vector, div
from ufl.algorithms.apply_restrictions import RestrictionPropagator, apply_restrictions
from ufl.core.expr import Expr
from ufl.core.multiindex import Index
from ufl.corealg.traversal import unique_pre_traversal
from ufl.pullback import identity_pullback
from ufl.sobolevspace import H1, L2, HDiv

from ufv import elements as E
from ufv import num as N
from ufv.core import crash_text, deliberate, proved, undecided, violated
from ufv.den import World, den
from ufv.num import Unsupported
from ufv.opq import mesh
from ufv.semv import check_same

LEVEL = "other"
TECHNIQUE = ("contract VCs in a two-world (+/-) semantics: each terminal rule x (current, default) restriction state and the whole "
             "propagation on a corpus of interior-facet integrands; den(propagated) == den(original) under the continuity constraints of the "
             "statement for all side values; structural 'restricted exactly once' postcondition; dispatch of every terminal class against a "
             "continuity classification table")
LEVEL_TEXT = "All-values proofs per terminal rule and state and per corpus integrand; classification table exhaustive over registered terminal classes."
LEVEL_NOTE = ("Trusted: two-world semantics and the continuity classification (H1 coefficients, coordinates, facet-intrinsic quantities "
              "continuous; normal flips on affine non-manifold meshes; everything else one-sided) written from the statement; ufv/den.py; z3.")
TRUSTED = ["two-world semantics + continuity classification table in ufv/props/c17.py", "ufv/den.py", "z3"]
ASSUMPTIONS = ["meshes: affine triangle 2D, triangle in 3D (manifold), quadratic-geometry triangle (non-affine)", "corpus finite", "real mode"]
EXPLANATION = ("Propagating restrictions to terminals is value preserving for all pairs of side values consistent with continuity; each "
               "side-dependent terminal is restricted exactly once; missing/double restrictions are rejected.")


def spaces(msh):
    cell = msh.ufl_cell()
    g = msh.geometric_dimension
    t = cell.topological_dimension
    return dict(H=ufl.FunctionSpace(msh, E.LagrangeElement(cell, 2)), Hv=ufl.FunctionSpace(msh, E.LagrangeElement(cell, 2, (g,))),
                DG=ufl.FunctionSpace(msh, E.FiniteElement("DG", cell, 1, (), identity_pullback, L2)),
                RT=ufl.FunctionSpace(msh, E.FiniteElement("RT", cell, 1, (t,), ufl.pullback.contravariant_piola, HDiv)))


def two_world(msh):
    affine_flat = (msh.ufl_coordinate_element().embedded_superdegree <= 1 and msh.geometric_dimension == msh.topological_dimension)

    def hook(w, e, comp, env):
        side = w.side_of_facet

        def need_side(what):
            if side is None:
                raise Unsupported(f"unrestricted {what} on an interior facet has no value")
        if isinstance(e, C.Coefficient):
            if e.ufl_element() in H1:
                return w.symbol(f"w{e.count()}", comp, side_dependent=False)
            need_side("discontinuous coefficient")
            return w.symbol(f"w{e.count()}", comp)
        if isinstance(e, C.Argument):
            need_side("argument")
            return w.symbol(f"v{e.number()}", comp)
        if isinstance(e, C.Constant):
            return w.symbol(f"c{e.count()}", comp, side_dependent=False)
        if isinstance(e, C.SpatialCoordinate):
            return w.symbol("x", comp, real=True, side_dependent=False)
        if isinstance(e, C.FacetNormal):
            need_side("facet normal")
            if affine_flat:
                v = w.symbol("n", comp, real=True, side_dependent=False)
                return v if side == "+" else N.neg(v)
            return w.symbol("n", comp, real=True)
        if isinstance(e, (C.FacetJacobian, C.FacetJacobianDeterminant, C.FacetJacobianInverse, C.FacetArea, C.MinFacetEdgeLength,
                          C.MaxFacetEdgeLength, C.FacetOrigin, C.FacetCoordinate, C.QuadratureWeight, C.ReferenceCellVolume,
                          C.ReferenceFacetVolume)):
            return w.symbol(f"geo_{type(e).__name__}", comp, real=True, side_dependent=False)
        if isinstance(e, C.GeometricQuantity):
            need_side(type(e).__name__)
            return w.symbol(f"geo_{type(e).__name__}", comp, real=True)
        if isinstance(e, C.ReferenceValue):
            f = e.ufl_operands[0]
            need_side("reference value")
            return w.symbol(f"rv{f.count()}", comp)
        return NotImplemented

    def mk(symbolic, valuation):
        w = World(symbolic=symbolic, complex_mode=False, valuation=valuation)
        w.terminal_hook = hook
        w.two_sided = True
        return w
    return mk


def restricted_once(r):
    """Structural postcondition; returns an error string or None."""
    def walk(x, inside):
        if isinstance(x, C.Restricted):
            if inside:
                return f"nested restriction around {type(x.ufl_operands[0]).__name__}"
            op = x.ufl_operands[0]
            y = op
            while isinstance(y, (C.Grad, C.ReferenceGrad, C.ReferenceValue)):
                y = y.ufl_operands[0]
            if not y._ufl_is_terminal_:
                return f"restriction wraps the non-terminal {type(op).__name__}"
            return None
        for o in x.ufl_operands:
            b = walk(o, inside)
            if b:
                return b
        return None
    return walk(r, False)


def build(run):
    tmo = 20000
    for nm in ("restricted", "_require_restriction", "_default_restricted", "_opposite", "_ignore_restriction", "variable", "reference_value",
               "coefficient", "facet_normal", "_missing_rule", "_extract_and_check_domain"):
        run.function(getattr(RestrictionPropagator, nm), f"RestrictionPropagator.{nm}")
    run.function(apply_restrictions)
    tri = mesh("triangle")
    tri3 = mesh("triangle", 3)
    quad_geom = ufl.Mesh(E.LagrangeElement(ufl.triangle, 2, (2,)))
    MESHES = {"tri2d": tri, "tri3d": tri3, "tri2d-P2geometry": quad_geom}

    # ---- (1) terminal rules x (current, default) states
    def terminal_cases(msh):
        sp = spaces(msh)
        yield "Coefficient[H1]", ufl.Coefficient(sp["H"]), "continuous"
        yield "Coefficient[H1 vector]", ufl.Coefficient(sp["Hv"]), "continuous"
        yield "Coefficient[DG]", ufl.Coefficient(sp["DG"]), "one-sided"
        yield "Coefficient[RT]", ufl.Coefficient(sp["RT"]), "one-sided"
        yield "Argument", ufl.TestFunction(sp["H"]), "one-sided"
        yield "Constant", ufl.Constant(msh), "side-free"
        yield "SpatialCoordinate", C.SpatialCoordinate(msh), "continuous"
        yield "FacetNormal", C.FacetNormal(msh), "normal"
        yield "Jacobian", C.Jacobian(msh), "one-sided"
        yield "CellVolume", C.CellVolume(msh), "one-sided"
        yield "FacetArea", C.FacetArea(msh), "continuous"
        yield "FacetJacobianDeterminant", C.FacetJacobianDeterminant(msh), "continuous"
        yield "Grad(H1 coefficient)", C.Grad(ufl.Coefficient(sp["H"])), "one-sided"
        yield "IntValue", C.IntValue(3), "side-free"

    for mname, msh in MESHES.items():
        for tname, _o, kind in terminal_cases(msh):
            for cur, dflt in itertools.product((None, "+", "-"), (None, "+", "-")):
                tag = f"terminal/{tname}/{mname}/current={cur}/default={dflt}"

                def thunk(mname=mname, tname=tname, cur=cur, dflt=dflt, tag=tag):
                    msh = MESHES[mname]
                    o, kind = [(o_, k_) for n_, o_, k_ in terminal_cases(msh) if n_ == tname][0]
                    rules = RestrictionPropagator(side=cur, default_restrictions=None if dflt is None else {msh: dflt})
                    try:
                        r = rules(o)
                    except (ValueError, RuntimeError) as ex:
                        if not deliberate(ex):
                            return violated(f"crash instead of a result or a refusal: {crash_text(ex)}", reproduced=True, backend="exec")
                        return proved("rejected", sample=f"{tag}: {ex}"[:200])
                    mk = two_world(msh)
                    # what the terminal means where it stands: seen from side `cur`; unrestricted (cur None) only continuous/side-free quantities mean something
                    w0 = mk(True, None)
                    try:
                        den(w0.on_side(cur) if cur else w0, o, tuple(0 for _ in o.ufl_shape), {})
                        has_meaning = True
                    except Unsupported:
                        has_meaning = False
                    if not has_meaning:
                        if dflt is None and r is o:
                            return proved("pass-through", sample=f"{tag}: unrestricted one-sided quantity left as is (no default restriction given)")
                        return violated(f"{tag}: an unrestricted one-sided quantity ({kind}) was accepted and rewritten to {r!r:.120}",
                                        replay={"terminal": repr(o), "current": cur, "default": dflt, "result": repr(r)}, reproduced=True, backend="exec")
                    if dflt is not None and kind in ("one-sided", "normal"):
                        bad = restricted_once(r)
                        if bad or not any(isinstance(x, C.Restricted) for x in unique_pre_traversal(r)):
                            return violated(f"{tag}: side-dependent terminal not restricted exactly once in the result {r!r:.160} ({bad})",
                                            reproduced=True, replay={"terminal": repr(o), "current": cur, "default": dflt}, backend="structural")

                    def spec(w, c, env):
                        return den(w.on_side(cur) if cur else w, o, c, env)
                    return check_same(mk, r, spec, o.ufl_shape, timeout_ms=tmo, what=tag)
                run.add(tag, thunk, kind="values")

    # ---- (2) dispatch: continuity classification of every registered terminal class
    def dispatch():
        rules = RestrictionPropagator(side="+", default_restrictions={tri: "+"})
        RP = RestrictionPropagator
        cont = {C.SpatialCoordinate, C.FacetJacobian, C.FacetJacobianDeterminant, C.FacetJacobianInverse, C.FacetArea, C.MinFacetEdgeLength,
                C.MaxFacetEdgeLength, C.FacetOrigin}
        free = {C.MultiIndex, C.Label, C.Constant, C.QuadratureWeight, C.ReferenceCellVolume, C.ReferenceFacetVolume, C.FacetCoordinate}
        n = 0
        for T in Expr._ufl_all_classes_:
            if not (isinstance(T, type) and issubclass(T, Expr)) or T._ufl_is_abstract_ or not T._ufl_is_terminal_ or T.__module__.startswith("ufv."):
                continue
            h = rules._handlers[T._ufl_typecode_]
            f = getattr(h, "__func__", h)
            n += 1
            if issubclass(T, C.ConstantValue) or T in free:
                ok = f is RP._ignore_restriction
            elif T in cont:
                ok = f in (RP._default_restricted, RP._require_restriction)
            elif T is C.Coefficient:
                ok = f is RP.coefficient
            elif T is C.FacetNormal:
                ok = f is RP.facet_normal
            else:
                # everything else is one-sided: it must not be silently treated as continuous or side-free
                ok = f in (RP._require_restriction, RP._missing_rule)
            if not ok:
                return violated(f"terminal class {T.__name__} is bound to {f.__name__}, which does not match its continuity class",
                                replay={"class": T.__name__, "handler": f.__name__}, reproduced=True, backend="exec")
        return proved("exec(all registered terminal classes)", vcs=n, sample=f"{n} terminal classes against the continuity classification")
    run.add("dispatch/terminal-classification", dispatch, kind="proof")

    # ---- (3) whole propagation on a corpus of interior facet integrands
    def corpus(msh):
        sp = spaces(msh)
        f, h = ufl.Coefficient(sp["DG"]), ufl.Coefficient(sp["H"])
        u = ufl.Coefficient(sp["Hv"])
        q = ufl.Coefficient(sp["RT"])
        v = ufl.TestFunction(sp["DG"])
        n = C.FacetNormal(msh)
        x = C.SpatialCoordinate(msh)
        i = Index()
        yield "(f*v)('+')", (f * v)("+")
        yield "jump(f)*jump(v)", jump(f) * jump(v)
        yield "avg(grad f).n('+') jump(v)", dot(avg(grad(f)), n("+")) * jump(v)
        yield "jump(f, n) . jump(v, n)", inner(jump(f, n), jump(v, n))
        yield "h * f('+') * v('-')  (H1 unrestricted)", h * f("+") * v("-")
        yield "x[0] * f('-') * v('+')", x[0] * f("-") * v("+")
        yield "(h*f)('-') * v('-')", (h * f)("-") * v("-")
        yield "grad(h)('+')[i] * n('-')[i] * v('+')", grad(h)("+")[i] * n("-")[i] * v("+")
        yield "n('+')[i]*n('-')[i]*v('+')", n("+")[i] * n("-")[i] * v("+")
        yield "(f*n[0])('-') * v('+')", (f * n[0])("-") * v("+")
        yield "conditional restricted", conditional(lt(f("+"), f("-")), f("+"), f("-")) * v("+")
        yield "variable inside restriction", (variable(f * f) * f)("+") * v("+")
        yield "as_vector restricted", as_vector([f, f * f])("+")[i] * as_vector([h, u[0]])[i] * v("-")
        yield "(q . n)('+') v('+')", dot(q, n)("+") * v("+")
        yield "div(q)('-') v('-')", div(q)("-") * v("-")
        yield "FacetArea * jump", C.FacetArea(msh) * jump(f) * jump(v)
        # the restriction sits DIRECTLY on a terminal modifier (a component, a derivative component) rather than on the terminal or on a larger expression
        yield "u[0]('-') * v('+')", u[0]("-") * v("+")
        yield "(u[0]('+') - u[0]('-')) * v('+')", (u[0]("+") - u[0]("-")) * v("+")
        yield "u[i]('+') * u[i]('-') * v('-')", u[i]("+") * u[i]("-") * v("-")
        yield "h.dx(0)('-') * v('+')", h.dx(0)("-") * v("+")
        yield "grad(u)[0, 1]('+') * v('-')", grad(u)[0, 1]("+") * v("-")
        yield "grad(f)[1]('-') * f('+') * v('+')", grad(f)[1]("-") * f("+") * v("+")
        yield "q[0]('+') * n[0]('+') * v('+')", q[0]("+") * n[0]("+") * v("+")
        yield "n[1]('-') * x[0]('+') * v('-')", n[1]("-") * x[0]("+") * v("-")
        yield "jump(u[1]) * avg(v)", jump(u[1]) * avg(v)
        yield "grad(grad(h))[0, 1]('-') * v('+')", grad(grad(h))[0, 1]("-") * v("+")
        yield "MISSING restriction f*v('+')", f * v("+")
        yield "MISSING restriction n[0]*v('+')", n[0] * v("+")
        yield "DOUBLE restriction f('+')('-')", C.NegativeRestricted(C.PositiveRestricted(f)) * v("+")
        yield "grad(h) unrestricted * v('+')", grad(h)[0] * v("+")
        # the same double restrictions written with the call operator / jump / avg (what users write), directly nested
        yield "DOUBLE restriction via the call operator f('+')('-')", f("+")("-") * v("+")
        yield "DOUBLE restriction via the call operator f('-')('-')", f("-")("-") * v("+")
        yield "DOUBLE restriction jump(f('+'))", jump(f("+")) * v("-")
        yield "DOUBLE restriction avg(f('-')) n.n", avg(f("-")) * dot(n("+"), n("+")) * v("+")
        yield "DOUBLE restriction of an expression (2*f('+'))('-')", (2 * f("+"))("-") * v("+")

    for mname, msh in MESHES.items():
        for cname, _e in corpus(msh):
            for dflt in ("+", None):
                tag = f"pipeline/{cname}/{mname}/default={dflt}"

                def thunk(mname=mname, cname=cname, dflt=dflt, tag=tag):
                    msh = MESHES[mname]
                    e = dict(corpus(msh))[cname]
                    from ufl.algorithms.apply_algebra_lowering import apply_algebra_lowering
                    from ufl.algorithms.apply_derivatives import apply_derivatives
                    e = apply_derivatives(apply_algebra_lowering(e))
                    mk = two_world(msh)
                    try:
                        w0 = mk(True, None)
                        den(w0, e, (), {})
                        meaningful = True
                    except Unsupported:
                        meaningful = False
                    try:
                        r = apply_restrictions(e, default_restrictions=None if dflt is None else {msh: dflt})
                    except (ValueError, RuntimeError) as ex:
                        if not deliberate(ex):
                            return violated(f"crash instead of a result or a refusal: {crash_text(ex)}", reproduced=True, backend="exec")
                        return proved("rejected", sample=f"{tag}: {ex}"[:200])
                    if not meaningful:
                        if dflt is None:
                            return proved("pass-through", sample=f"{tag}: no default restrictions: unrestricted terminals are left alone")
                        return violated(f"{tag}: integrand with a missing or double restriction was accepted; result {str(r)[:200]}",
                                        replay={"integrand": str(e)[:600], "default": dflt, "result": str(r)[:600]}, reproduced=True, backend="exec")
                    if dflt is not None:
                        bad = restricted_once(r)
                        if bad:
                            return violated(f"{tag}: {bad}", replay={"integrand": str(e)[:600], "result": str(r)[:600]}, reproduced=True,
                                            backend="structural")
                        try:
                            den(mk(True, None), r, (), {})
                        except Unsupported as ex:
                            return violated(f"{tag}: after propagation a side-dependent terminal is still unrestricted ({ex})",
                                            replay={"integrand": str(e)[:600], "result": str(r)[:600]}, reproduced=True, backend="structural")
                    return check_same(mk, r, lambda w, c, env: den(w, e, c, env), (), timeout_ms=tmo, what=tag)
                run.add(tag, thunk, kind="values")

    # ---- reference-value form: the same integrand after apply_function_pullbacks (terminals wrapped in ReferenceValue, as in the second propagation pass of
    # compute_form_data) is accepted or rejected exactly like the physical one, and every terminal ends up on the same side
    def reference_form():
        from ufl.algorithms.apply_function_pullbacks import apply_function_pullbacks
        n = 0
        for mname, msh in MESHES.items():
            sp = spaces(msh)
            fd, fh, q = ufl.Coefficient(sp["DG"]), ufl.Coefficient(sp["H"]), ufl.Coefficient(sp["RT"])
            vh, vd, uh = ufl.TestFunction(sp["H"]), ufl.TestFunction(sp["DG"]), ufl.TrialFunction(sp["H"])
            nrm = C.FacetNormal(msh)
            cases = {"fd('-') * vh  (continuous test function never restricted)": fd("-") * vh, "fh * vh('+')  (continuous coefficient unrestricted)": fh * vh("+"),
                     "fd * vh('+')  (discontinuous coefficient unrestricted)": fd * vh("+"), "uh * vh('+')  (trial function unrestricted)": uh * vh("+"),
                     "fh('-') * vd  (discontinuous test function unrestricted)": fh("-") * vd, "fh * fd('+') * vh('-') * uh('+')": fh * fd("+") * vh("-") * uh("+"),
                     "dot(q, n)('+') * vh('+')": dot(q, nrm)("+") * vh("+"), "dot(q, n('+')) * vh('+')  (Piola coefficient unrestricted)": dot(q, nrm("+")) * vh("+"),
                     "jump(fh * vh)": jump(fh * vh), "avg(uh) * jump(vh) * fh": avg(uh) * jump(vh) * fh}
            for cname, e in cases.items():
                outcomes = {}
                for route, pre in (("physical", lambda x_: x_), ("after pullbacks", lambda x_: apply_function_pullbacks(x_))):
                    try:
                        r = apply_restrictions(pre(e), default_restrictions={msh: "+"})
                        sides = sorted((type(nd.ufl_operands[0]).__name__ if not isinstance(nd.ufl_operands[0], C.ReferenceValue) else "RV", str(nd.ufl_operands[0]).replace("reference_value(", "").rstrip(")"), nd.side())
                                       for nd in ufl.corealg.traversal.unique_pre_traversal(r) if isinstance(nd, C.Restricted)
                                       and isinstance(nd.ufl_operands[0].ufl_operands[0] if isinstance(nd.ufl_operands[0], C.ReferenceValue) else nd.ufl_operands[0], (C.Coefficient, C.Argument)))
                        outcomes[route] = ("accepted", tuple((s_[1], s_[2]) for s_ in sides))
                    except (ValueError, RuntimeError) as ex:
                        if not deliberate(ex):
                            return violated(f"crash instead of a result or a refusal: {crash_text(ex)}", reproduced=True, backend="exec")
                        outcomes[route] = ("rejected", ())
                n += 1
                if outcomes["physical"] != outcomes["after pullbacks"]:
                    return violated(f"{cname} on {mname}: restriction propagation {outcomes['physical'][0]} the integrand as written ({outcomes['physical'][1]}) but "
                                    f"{outcomes['after pullbacks'][0]} it in reference-value form ({outcomes['after pullbacks'][1]})",
                                    replay={"integrand": cname, "mesh": mname, "physical": str(outcomes["physical"]), "reference": str(outcomes["after pullbacks"])}, reproduced=True, backend="exec")
        return proved("exec(finite)", vcs=n, sample=f"{n} (integrand, mesh) cases: same acceptance and same sides before and after function pullbacks")
    run.add("reference-value-form/same-decision-as-the-physical-form", reference_form, kind="values")

    # ---- through compute_form_data (FormData decides per integral whether restrictions are propagated at all): single-domain dS and a
    # multi-domain measure "interior facets of this mesh that are exterior facets of another one"
    def via_cfd(cname, multi):
        tag = f"compute_form_data/{cname}/" + ("dS intersected with ds of a second mesh" if multi else "dS")

        def thunk():
            from ufl.algorithms import compute_form_data
            msh = tri
            e = dict(corpus(msh))[cname]
            if multi:
                other = ufl.Mesh(E.LagrangeElement(ufl.triangle, 1, (2,)), ufl_id=917017)      # a second, distinct mesh
                gB = ufl.Coefficient(spaces(other)["DG"])
                meas = ufl.Measure("dS", msh, intersect_measures=(ufl.Measure("ds", other),))
                form = (gB * e) * meas
            else:
                meas = ufl.Measure("dS", msh)
                form = e * meas
            mk = two_world(msh)
            try:
                den(mk(True, None), e, (), {})
                meaningful = True
            except Unsupported:
                meaningful = False
            try:
                fd = compute_form_data(form)
            except (ValueError, RuntimeError) as ex:
                if not deliberate(ex):
                    return violated(f"crash instead of a result or a refusal: {crash_text(ex)}", reproduced=True, backend="exec")
                return proved("rejected", sample=f"{tag}: {ex}"[:200])
            n = 0
            for idata in fd.integral_data:
                if idata.integral_type != "interior_facet":
                    return violated(f"{tag}: integral type became {idata.integral_type}", reproduced=True)
                for itg in idata.integrals:
                    r = itg.integrand()
                    n += 1
                    bad = restricted_once(r)
                    if bad:
                        return violated(f"{tag}: {bad}: {str(r)[:300]}", replay={"integrand": str(e)[:600], "result": str(r)[:600]}, reproduced=True, backend="structural")
                    if not meaningful:
                        return violated(f"{tag}: an integrand with a missing or double restriction was accepted: {str(r)[:300]}",
                                        replay={"integrand": str(e)[:600], "result": str(r)[:600]}, reproduced=True, backend="exec")
                    # every side-dependent terminal of the interior-facet mesh carries a restriction now
                    unres = []

                    def walk(x, inside):
                        if isinstance(x, C.Restricted):
                            inside = True
                        if x._ufl_is_terminal_ and not inside:
                            dom = None
                            try:
                                dom = ufl.domain.extract_unique_domain(x)
                            except Exception:  # noqa: BLE001
                                pass
                            if dom is msh and isinstance(x, (C.Coefficient, C.Argument, C.FacetNormal, C.Jacobian, C.SpatialCoordinate)) \
                                    and not (isinstance(x, C.SpatialCoordinate) or (isinstance(x, C.Coefficient) and x.ufl_element() in ufl.sobolevspace.H1 and False)):
                                unres.append(str(x))
                        for o in x.ufl_operands:
                            walk(o, inside)
                    walk(r, False)
                    if unres:
                        return violated(f"{tag}: after compute_form_data the terminals {sorted(set(unres))} of the interior-facet mesh are unrestricted in {str(r)[:300]}",
                                        replay={"integrand": str(e)[:600], "result": str(r)[:600]}, reproduced=True, backend="structural")
            return proved("exec+structural", vcs=n, sample=f"{tag}: restrictions on terminals only, every argument/coefficient/normal of the facet mesh restricted")
        run.add(tag, thunk, kind="values")
    for cname, _e in corpus(tri):
        for multi in (False, True):
            via_cfd(cname, multi)

    # ---- entry point: apply_restrictions given an Integral / a Form (as compute_form_data calls it) of ANY interior-facet integral type
    # (dS, and dS_h / dS_v on extruded cells) does to the integrand exactly what it does to the bare integrand expression; the rejections coincide
    ext = ufl.Mesh(E.LagrangeElement(ufl.TensorProductCell(ufl.interval, ufl.interval), 1, (2,)))
    ENTRY = {"dS": (tri, "dS"), "dS_h (extruded cell)": (ext, "dS_h"), "dS_v (extruded cell)": (ext, "dS_v"), "dS (extruded cell)": (ext, "dS")}

    def entry(mkey, cname, dflt):
        tag = f"entry-point/{cname}/{mkey}/default={dflt}"

        def thunk():
            from ufl.algorithms.apply_algebra_lowering import apply_algebra_lowering
            from ufl.algorithms.apply_derivatives import apply_derivatives
            msh, mname = ENTRY[mkey]
            e = apply_derivatives(apply_algebra_lowering(dict(corpus(msh))[cname]))
            dr = None if dflt is None else {msh: dflt}

            def run_on(x):
                try:
                    return ("ok", apply_restrictions(x, default_restrictions=dr))
                except (ValueError, RuntimeError) as ex:
                    if not deliberate(ex):
                        raise
                    return ("rejected", str(ex))
            try:
                ref = run_on(e)
                form = e * ufl.Measure(mname, msh)
                got_i = run_on(form.integrals()[0])
                got_f = run_on(form)
            except Exception as ex:  # noqa: BLE001
                return violated(f"crash instead of a result or a refusal: {crash_text(ex)}", reproduced=True, backend="exec")
            for what, got in (("Integral", got_i), ("Form", got_f)):
                if got[0] != ref[0]:
                    return violated(f"{tag}: apply_restrictions on the bare integrand is {ref[0]} but on the {what} it is {got[0]} ({str(got[1])[:200]})",
                                    replay={"integrand": str(e)[:600], "measure": mname, "on": what}, reproduced=True, backend="exec")
                if got[0] == "ok":
                    r = got[1].integrand() if what == "Integral" else got[1].integrals()[0].integrand()
                    from ufl.algorithms.renumbering import renumber_indices
                    if not (renumber_indices(r) == renumber_indices(ref[1])):       # equal up to the names of bound indices
                        return violated(f"{tag}: the integrand of the {what} after apply_restrictions is {str(r)[:200]}, the propagated bare integrand is {str(ref[1])[:200]}",
                                        replay={"integrand": str(e)[:600], "measure": mname, "on": what, "got": str(r)[:600], "expected": str(ref[1])[:600]},
                                        reproduced=True, backend="structural")
            return proved("exec+structural", vcs=2, sample=f"{tag}: Integral and Form entry points agree with the expression entry point ({ref[0]})")
        run.add(tag, thunk, kind="values")
    for mkey in ENTRY:
        for cname, _e in corpus(tri):
            for dflt in ("+", None):
                entry(mkey, cname, dflt)

    # ---- the user-facing ways of writing a restriction build the restriction node they name (so that a doubly restricted integrand reaches the
    # propagator as a double restriction): e('+') is PositiveRestricted(e), e('-') is NegativeRestricted(e), also when e is itself restricted
    def call_operator():
        sp = spaces(tri)
        f, h = ufl.Coefficient(sp["DG"]), ufl.Coefficient(sp["H"])
        u = ufl.Coefficient(sp["Hv"])
        n_ = C.FacetNormal(tri)
        operands = [("f", f), ("f*h", f * h), ("grad(f)", grad(f)), ("u", u), ("n", n_), ("f('+')", f("+")), ("f('-')", f("-")), ("grad(f)('+')", grad(f)("+")), ("2*f('+')", 2 * f("+")),
                    ("variable(f)", variable(f)), ("conditional", conditional(lt(f, h), f, h))]
        n = 0
        for nm, e in operands:
            for side, cls in (("+", C.PositiveRestricted), ("-", C.NegativeRestricted)):
                try:
                    r = e(side)
                except ValueError as ex:
                    if not deliberate(ex):
                        return violated(f"crash instead of a result or a refusal: {crash_text(ex)}", reproduced=True, backend="exec")
                    n += 1
                    continue
                n += 1
                if type(r) is not cls or not (r.ufl_operands[0] is e or r.ufl_operands[0] == e):
                    return violated(f"{nm}('{side}') builds {type(r).__name__}({str(r)[:80]}) instead of {cls.__name__}({nm}): the restriction written by the user is not "
                                    f"the one the propagator gets to see", replay={"operand": nm, "side": side, "result": str(r)[:300]}, reproduced=True, backend="structural")
        for nm, mk_, want in [("jump(f)", lambda: jump(f), lambda: f("+") - f("-")), ("avg(f)", lambda: avg(f), lambda: 0.5 * (f("+") + f("-"))),
                              ("jump(f('+'))", lambda: jump(f("+")), lambda: C.PositiveRestricted(f("+")) - C.NegativeRestricted(f("+"))),
                              ("avg(f('-'))", lambda: avg(f("-")), lambda: 0.5 * (C.PositiveRestricted(f("-")) + C.NegativeRestricted(f("-"))))]:
            n += 1
            if not (mk_() == want()):
                return violated(f"{nm} builds {str(mk_())[:120]}, expected {str(want())[:120]}", replay={"expr": nm}, reproduced=True, backend="structural")
        return proved("exec+structural", vcs=n, sample=f"{n} restriction spellings: e(side) is the restriction node of that side around e itself (also around restricted e)")
    run.add("operator/restriction-call-builds-the-restriction", call_operator, kind="values")

    def canary():
        msh = tri
        sp = spaces(msh)
        f = ufl.Coefficient(sp["DG"])
        return check_same(two_world(msh), f("+"), lambda w, c, env: den(w.on_side("-"), f, c, env), (), what="canary + is not -")
    run.add("canary/plus-is-not-minus", canary, kind="canary")
