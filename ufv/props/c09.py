"""C09 — Jacobian product cancellation preserves values.

Functions under contract: _flatten_product, _make_product, IndexSumSimplifier._cancel/_index_sum/_substitute and its
IndexSum handler, _delta_cancellation, JacobianCanceller.match, _identity_index, IdentityEliminator.match and its Indexed
handler, _as_base_exponent, _make_power, ReciprocalCanceller's Product handler, cancel_jacobian_products.

Contract: for every full-rank Jacobian (J symbolic; K is *defined* as its (pseudo-)inverse (J^T J)^-1 J^T and detJ as its
(pseudo-)determinant, so no axiom about K J is needed) and every value of the other factors:
        den(pass(e)) == den(e),  same shape and free indices.
_as_base_exponent(f) = (b, x)  ==>  den f == den(b)^x  for all values of b where f is defined — without any sign assumption on b.
These passes pattern-match into their operands, so the obligations instantiate the pattern shapes read off the source
(Indexed(K)·Indexed(J) in both contraction orders, Indexed next to IndexSum, nested IndexSums, Identity contractions,
Power(Power(b,e1),e2), Division(1, .)) over a small index alphabet INCLUDING reuse of a bound index object as a free index of a
sibling factor (shadowing) and non-integer exponents over a base of unknown sign.
"""
from __future__ import annotations

import itertools

import ufl
import ufl.classes as C
import ufl.algorithms.cancel_jacobian_products as CJ
from ufl.core.multiindex import FixedIndex, Index, MultiIndex

from ufv import num as N
from ufv.core import crash_text, deliberate, proved, undecided, violated
from ufv.den import World, _cofactor, den, leibniz_det
from ufv.opq import Opq, mesh
from ufv.semv import check_same

LEVEL = "other"
TECHNIQUE = ("contract VCs on the real cancellation passes: run on pattern representatives (incl. shadowed indices, sign-unknown bases) "
             "with J symbolic and K, detJ defined from J; den(result) == den(input) for all values (polynomial normaliser / z3)")
LEVEL_TEXT = ("All-values proofs per pattern representative; patterns up to 2 nested sums and 4 factors over the index alphabet "
              "{k, j, a, b, fixed}; meshes triangle 2D (square J) and triangle in 3D (3x2 J).")
LEVEL_NOTE = "Trusted: ufv/den.py, the pseudo-inverse / pseudo-determinant definitions used for K and detJ, z3, ufv/alg.py. Patterns enumerated."
TRUSTED = ["ufv/den.py", "K := (J^T J)^-1 J^T, detJ := det J (square) / sqrt(det J^T J) (spec side)", "z3, ufv/alg.py"]
ASSUMPTIONS = ["pattern depth <= 2 nested sums, <= 4 factors", "cells: triangle in 2D and in 3D", "real mode",
               "powers: defined values only (base > 0 required for non-integer exponents by the language semantics)"]
EXPLANATION = ("The three traversals of cancel_jacobian_products and the helper _as_base_exponent are run on instantiated patterns; the "
               "output must denote the same value for every full-rank Jacobian and all factor values, with the same free indices.")


def geo_hook(tdim, gdim):
    def Jv(w, i, j):
        return w.symbol("J", (i, j), real=True)

    def gram(w):
        return lambda r, c: _sum(gdim, lambda q: N.mul(Jv(w, q, r), Jv(w, q, c)))

    def hook(w, e, comp, env):
        if isinstance(e, C.Jacobian):
            return Jv(w, comp[0], comp[1])
        if isinstance(e, C.JacobianInverse):
            if tdim == gdim:
                M = lambda a, b: Jv(w, a, b)  # noqa: E731
                det = leibniz_det(M, tdim)
                w.require(N.cmp("!=", det, 0))
                return N.div(_cofactor(M, tdim, comp[1], comp[0]), det)
            G = gram(w)
            det = leibniz_det(G, tdim)
            w.require(N.cmp("!=", det, 0))
            return _sum(tdim, lambda q: N.mul(N.div(_cofactor(G, tdim, q, comp[0]), det), Jv(w, comp[1], q)))
        if isinstance(e, C.JacobianDeterminant):
            if tdim == gdim:
                d = leibniz_det(lambda a, b: Jv(w, a, b), tdim)
            else:
                d = w.funcs.apply("sqrt", leibniz_det(gram(w), tdim))
            w.require(N.cmp("!=", d, 0))
            return d
        return NotImplemented
    return hook


def _sum(n, f):
    tot = 0
    for k in range(n):
        tot = N.add(tot, f(k))
    return tot


def build(run):
    for f in (CJ._flatten_product, CJ._make_product, CJ.IndexSumSimplifier._cancel, CJ.IndexSumSimplifier._index_sum,
              CJ.IndexSumSimplifier._substitute, CJ._delta_cancellation, CJ.JacobianCanceller.match, CJ._identity_index,
              CJ.IdentityEliminator.match, CJ._as_base_exponent, CJ._make_power, CJ.cancel_jacobian_products):
        run.function(f)
    run.functions["ReciprocalCanceller.process[Product]"] = "registered"
    tmo = 20000
    MESHES = {"tri2d": (mesh("triangle", 2), 2, 2), "tri3d": (mesh("triangle", 3), 2, 3)}

    def mkworld(tdim, gdim, cplx=False):
        def mk(symbolic, valuation):
            w = World(symbolic=symbolic, complex_mode=cplx, valuation=valuation)
            w.terminal_hook = geo_hook(tdim, gdim)
            return w
        return mk

    def ob(name, mname, builder, passes):
        tag = f"{name}/{mname}"

        def thunk():
            msh, t, g = MESHES[mname]
            try:
                e = builder(msh, t, g)
            except Exception as ex:  # noqa: BLE001
                return undecided(f"{tag}: representative could not be built: {type(ex).__name__}: {ex}")
            r = e
            try:
                for p in passes:
                    r = p()(r)
            except ValueError as ex:
                if not deliberate(ex):
                    return violated(f"crash instead of a result or a refusal: {crash_text(ex)}", reproduced=True, backend="exec")
                return proved("refused", sample=f"{tag}: raises ValueError {ex}"[:200])
            except Exception as ex:  # noqa: BLE001
                return violated(f"{tag}: pass crashed with {type(ex).__name__}: {ex}", replay={"expr": str(e)[:600], "repr": repr(e)[:3000]},
                                reproduced=True, backend="exec")
            return check_same(mkworld(t, g, cplx=name.split("/")[-1].startswith("COMPLEX")), r, lambda w, c, env: den(w, e, c, env), e.ufl_shape, e.ufl_free_indices,
                              e.ufl_index_dimensions, timeout_ms=tmo, what=tag)
        run.add(tag, thunk, kind="values")

    ALL = [CJ.JacobianCanceller, CJ.IdentityEliminator, CJ.ReciprocalCanceller]
    k, j, a, b = Index(), Index(), Index(), Index()
    MI = MultiIndex

    def S(x, *ii):
        return C.IndexSum(x, MI(tuple(ii)))

    def X(T, *ii):
        return C.Indexed(T, MI(tuple(FixedIndex(i) if isinstance(i, int) else i for i in ii)))

    def U(name, dims, *ii):
        """an opaque tensor indexed by the given indices (so that index substitution can reach the indices)"""
        dims = dims if isinstance(dims, tuple) else (dims,)
        return X(Opq(name, tuple(dims)), *ii)

    def patterns():
        # (name, builder(msh,t,g))
        yield "K_ak J_kb", lambda m, t, g: S(C.Product(X(C.JacobianInverse(m), a, k), X(C.Jacobian(m), k, b)), k)
        yield "J_kb K_ak (operand order)", lambda m, t, g: S(C.Product(X(C.Jacobian(m), k, b), X(C.JacobianInverse(m), a, k)), k)
        yield "J_ak K_kb (other contraction)", lambda m, t, g: S(C.Product(X(C.Jacobian(m), a, k), X(C.JacobianInverse(m), k, b)), k)
        yield "K_ak J_kb g_b (free b)", lambda m, t, g: S(C.Product(C.Product(X(C.JacobianInverse(m), a, k), X(C.Jacobian(m), k, b)), U("g", (t,), b)), k)
        yield "(K_ak g_k') J_kb nesting", lambda m, t, g: S(C.Product(X(C.JacobianInverse(m), a, k), C.Product(Opq("h"), X(C.Jacobian(m), k, b))), k)
        yield "K_ak J_ka (trace, free a)", lambda m, t, g: S(C.Product(X(C.JacobianInverse(m), a, k), X(C.Jacobian(m), k, a)), k)
        yield "K_0k J_k1 (fixed)", lambda m, t, g: S(C.Product(X(C.JacobianInverse(m), 0, k), X(C.Jacobian(m), k, 1)), k)
        yield "K_ak J_kb with third k-factor (no cancel)", lambda m, t, g: S(C.Product(C.Product(X(C.JacobianInverse(m), a, k), X(C.Jacobian(m), k, b)), U("g", (g,), k)), k)
        yield "sum_b sum_k K_ak J_kb u_b", lambda m, t, g: S(S(C.Product(C.Product(X(C.JacobianInverse(m), a, k), X(C.Jacobian(m), k, b)), U("u", (t,), b)), k), b)
        yield "sum_k sum_b K_ak J_kb u_b (interchange)", lambda m, t, g: S(S(C.Product(C.Product(X(C.JacobianInverse(m), a, k), X(C.Jacobian(m), k, b)), U("u", (t,), b)), b), k)
        yield "sum_k K_ak (sum_b J_kb u_b)", lambda m, t, g: S(C.Product(X(C.JacobianInverse(m), a, k), S(C.Product(X(C.Jacobian(m), k, b), U("u", (t,), b)), b)), k)
        yield "sum_k (sum_b J_kb u_b) K_ak", lambda m, t, g: S(C.Product(S(C.Product(X(C.Jacobian(m), k, b), U("u", (t,), b)), b), X(C.JacobianInverse(m), a, k)), k)
        yield "SHADOW sum_k K_jk (sum_j J_kj u_j)", lambda m, t, g: S(C.Product(X(C.JacobianInverse(m), j, k), S(C.Product(X(C.Jacobian(m), k, j), U("u", (t,), j)), j)), k)
        yield "SHADOW rest_j * sum_k (sum_j K_ak J_kj u_j)", lambda m, t, g: S(C.Product(U("r", (t,), j), S(C.Product(C.Product(X(C.JacobianInverse(m), a, k), X(C.Jacobian(m), k, j)), U("u", (t,), j)), j)), k) if False else S(S(C.Product(C.Product(X(C.JacobianInverse(m), a, k), X(C.Jacobian(m), k, j)), U("u", (t,), j)), j), k)
        # two deltas over one summation index, the second inside a nested sum that REUSES (shadows) the first delta's free index: the guarded contraction is
        # refused and the fall-back rewrites (sum interchange, push into the inner sum) must still see every factor
        c_i, p_i, q_i = Index(), Index(), Index()
        yield "SHADOW two deltas: (sum_q K_jq J_qk) sum_j((sum_p K_cp J_pk) h_j f_j)", lambda m, t, g: S(C.Product(
            S(C.Product(X(C.JacobianInverse(m), j, q_i), X(C.Jacobian(m), q_i, k)), q_i),
            S(C.Product(C.Product(S(C.Product(X(C.JacobianInverse(m), c_i, p_i), X(C.Jacobian(m), p_i, k)), p_i), U("h", (t,), j)), U("f", (t,), j)), j)), k)
        yield "SHADOW two deltas: I_jk sum_j(I_ck h_j f_j)", lambda m, t, g: S(C.Product(X(C.Identity(t), j, k), S(C.Product(C.Product(X(C.Identity(t), c_i, k), U("h", (t,), j)), U("f", (t,), j)), j)), k)
        yield "SHADOW two deltas: sum_j(I_ck h_j f_j) I_jk (operand order)", lambda m, t, g: S(C.Product(S(C.Product(C.Product(X(C.Identity(t), c_i, k), U("h", (t,), j)), U("f", (t,), j)), j), X(C.Identity(t), j, k)), k)
        yield "SHADOW two deltas and a third factor: I_jk u_k sum_j(I_ck h_j)", lambda m, t, g: S(C.Product(C.Product(X(C.Identity(t), j, k), U("u", (t,), k)), S(C.Product(X(C.Identity(t), c_i, k), U("h", (t,), j)), j)), k)
        # complex values with conjugations next to what cancels (sesquilinear forms: inner(a, b) = a conj(b)); the geometry is real, the fields are not
        yield "COMPLEX conj(p) detJ (1/detJ) (sum_k K_ak J_kb g_b)", lambda m, t, g: P(P(C.Conj(Opq("p")), C.JacobianDeterminant(m)), P(D(one, C.JacobianDeterminant(m)),
                                                                                         S(C.Product(C.Product(X(C.JacobianInverse(m), a, k), X(C.Jacobian(m), k, b)), U("g", (t,), b)), k)))
        yield "COMPLEX sum_k conj(K_ak J_kb g_a)", lambda m, t, g: S(C.Conj(C.Product(C.Product(X(C.JacobianInverse(m), a, k), X(C.Jacobian(m), k, b)), U("g", (t,), a))), k)
        yield "COMPLEX sum_k I_ak conj(u_k) v_k", lambda m, t, g: S(C.Product(C.Product(X(C.Identity(t), a, k), C.Conj(U("u", (t,), k))), U("v", (t,), k)), k)
        yield "COMPLEX conj(f p) (1/f)", lambda m, t, g: P(C.Conj(P(Opq("f"), Opq("p"))), D(one, Opq("f")))
        yield "COMPLEX (f conj(p)) (1/f) q", lambda m, t, g: P(P(P(Opq("f"), C.Conj(Opq("p"))), D(one, Opq("f"))), Opq("q"))
        # the delta's other index is BOUND by a component tensor inside the remaining factors (one that component-tensor removal cannot remove: below Re / conj / abs)
        yield "CAPTURE by a component tensor: sum_k I_ak Re(CT_a(g_a h_k))[0]", lambda m, t, g: S(C.Product(X(C.Identity(t), a, k),
                                                                                                  X(C.Real(C.ComponentTensor(C.Product(U("g", (t,), a), U("h", (t,), k)), MI((a,)))), 0)), k)
        yield "CAPTURE by a component tensor: sum_k |CT_a(g_a h_k)[1]| I_ka", lambda m, t, g: S(C.Product(C.Abs(X(C.ComponentTensor(C.Product(U("g", (t,), a), U("h", (t,), k)), MI((a,))), 1)),
                                                                                               X(C.Identity(t), k, a)), k)
        yield "I_ak u_k", lambda m, t, g: S(C.Product(X(C.Identity(t), a, k), U("u", (t,), k)), k)
        yield "I_ka u_k v_k", lambda m, t, g: S(C.Product(C.Product(X(C.Identity(t), k, a), U("u", (t,), k)), U("v", (t,), k)), k)
        yield "I_0k u_k (fixed)", lambda m, t, g: S(C.Product(X(C.Identity(t), 0, k), U("u", (t,), k)), k)
        yield "I_ak alone (no others)", lambda m, t, g: S(X(C.Identity(t), a, k), k)
        yield "I_kk (trace)", lambda m, t, g: S(X(C.Identity(t), k, k), k)
        yield "I_01 + I_11 fixed folding", lambda m, t, g: C.Sum(C.Product(X(C.Identity(t), 0, 1), Opq("p")), C.Product(X(C.Identity(t), 1, 1), Opq("q")))
        yield "CAPTURE I_ak (sum_a B_ka c_a)", lambda m, t, g: S(C.Product(X(C.Identity(t), a, k), S(C.Product(U("B", (t, t), k, a), U("c", (t,), a)), a)), k)
        yield "I_ak u_k with inner scope rebinding k", lambda m, t, g: S(C.Product(X(C.Identity(t), a, k), C.Product(U("u", (t,), k), S(C.Product(U("p", (t,), k), U("q", (t,), k)), k))), k)
        yield "I_0k u_k with inner scope rebinding k (fixed)", lambda m, t, g: S(C.Product(X(C.Identity(t), 0, k), C.Product(U("u", (t,), k), S(C.Product(U("p", (t,), k), U("q", (t,), k)), k))), k)
        # one call, several deltas over the SAME summation Index object with different partner indices (components of one cached
        # pull-back share their bound indices): any memoisation inside the pass must be keyed by the whole substitution
        yield "shared k: (sum_k I_ak u_k)*(sum_k I_bk v_k)", lambda m, t, g: C.Product(S(C.Product(X(C.Identity(t), a, k), U("u", (t,), k)), k),
                                                                                      S(C.Product(X(C.Identity(t), b, k), U("v", (t,), k)), k))
        yield "shared k: (sum_k I_0k u_k)*(sum_k I_1k u_k)", lambda m, t, g: C.Product(S(C.Product(X(C.Identity(t), 0, k), U("u", (t,), k)), k),
                                                                                      S(C.Product(X(C.Identity(t), 1, k), U("u", (t,), k)), k))
        yield "shared k: [sum_k I_0k u_k, sum_k I_1k u_k]", lambda m, t, g: C.ListTensor(S(C.Product(X(C.Identity(t), 0, k), U("u", (t,), k)), k),
                                                                                        S(C.Product(X(C.Identity(t), 1, k), U("u", (t,), k)), k))
        yield "shared k,b: (sum_k sum_b K_0k J_kb u_b)*(sum_k sum_b K_1k J_kb u_b)", lambda m, t, g: C.Product(
            S(S(C.Product(C.Product(X(C.JacobianInverse(m), 0, k), X(C.Jacobian(m), k, b)), U("u", (t,), b)), k), b),
            S(S(C.Product(C.Product(X(C.JacobianInverse(m), 1, k), X(C.Jacobian(m), k, b)), U("u", (t,), b)), k), b))
        yield "shared b: (sum_b I_ab u_b) + (sum_b I_jb u_b) g_j...", lambda m, t, g: C.Product(S(C.Product(X(C.Identity(t), a, b), U("u", (t,), b)), b),
                                                                                              S(C.Product(X(C.Identity(t), j, b), U("u", (t,), b)), b))
        # traced contractions (both outer slots carry the same index) next to other factors: the delta I_aa is a trace (= dim), not a
        # substitution
        yield "traced: sum_a sum_j (sum_k K_ak J_ka) g_j h_j", lambda m, t, g: S(S(C.Product(C.Product(S(C.Product(X(C.JacobianInverse(m), a, k), X(C.Jacobian(m), k, a)), k), U("g", (t,), j)), U("h", (t,), j)), j), a)
        yield "traced: sum_a (sum_k K_ak J_ka) g_a", lambda m, t, g: S(C.Product(S(C.Product(X(C.JacobianInverse(m), a, k), X(C.Jacobian(m), k, a)), k), U("g", (t,), a)), a)
        yield "traced: sum_a I_aa g_a h_a", lambda m, t, g: S(C.Product(C.Product(X(C.Identity(t), a, a), U("g", (t,), a)), U("h", (t,), a)), a)
        yield "traced: sum_a sum_j I_aa g_j h_j", lambda m, t, g: S(S(C.Product(C.Product(X(C.Identity(t), a, a), U("g", (t,), j)), U("h", (t,), j)), j), a)
        # a Zero that carries the contracted index next to another free index of a DIFFERENT extent (a vanishing branch of a conditional): after the
        # substitution every free index keeps its own extent, whichever way the renamed index sorts among the others
        def zc(m_, *ii_dims):
            ii = tuple(x for x, _ in ii_dims)
            z = C.Zero((), tuple(sorted(x.count() for x in ii)), tuple(d for _, d in sorted(((x.count(), d) for x, d in ii_dims))))
            return C.Conditional(C.LT(Opq("p"), Opq("q")), z, U("G", tuple(d for _, d in ii_dims), *ii))
        yield "zero branch: I_ak cond(0_kj, G_kj) (k->a sorts after j)", lambda m, t, g: S(C.Product(X(C.Identity(2), a, k), zc(m, (k, 2), (j, 3))), k)
        yield "zero branch: I_kb cond(0_kj, G_kj) v_j", lambda m, t, g: S(S(C.Product(C.Product(X(C.Identity(2), k, b), zc(m, (k, 2), (j, 3))), U("v", (3,), j)), j), k)
        yield "zero branch: I_jk cond(0_ak, G_ak) (k->j sorts before a)", lambda m, t, g: S(C.Product(X(C.Identity(3), j, k), zc(m, (a, 2), (k, 3))), k)
        yield "zero branch: K_ak J_kb cond(0_bj, G_bj)", lambda m, t, g: S(S(C.Product(C.Product(X(C.JacobianInverse(m), a, k), X(C.Jacobian(m), k, b)), zc(m, (b, t), (j, 3 + t))), k), b)
        yield "zero branch: three free indices 0_{k j b}", lambda m, t, g: S(C.Product(X(C.Identity(2), a, k), zc(m, (k, 2), (j, 3), (b, 4))), k)
        # realistic: grad of a contravariant Piola mapped function contracted: K_ak (J_kb r_b)/detJ ...
        yield "piola-div-like", lambda m, t, g: S(S(C.Product(C.Product(X(C.JacobianInverse(m), a, k), C.Division(X(C.Jacobian(m), k, b), C.JacobianDeterminant(m))), U("r", (t, t), a, b)), b), a) if False else \
            S(S(C.Product(C.Product(X(C.JacobianInverse(m), a, k), X(C.Jacobian(m), k, b)), C.Product(C.Division(C.IntValue(1), C.JacobianDeterminant(m)), U("r", (t, t), a, b))), k), b)
        # reciprocal cancellation
        f = Opq("f")
        fi = U("f", (2,), a)
        P, D, W = C.Product, C.Division, C.Power
        one = C.IntValue(1)
        yield "f * (1/f)", lambda m, t, g: P(f, D(one, f))
        yield "detJ^2 * (1/detJ)^2", lambda m, t, g: P(W(C.JacobianDeterminant(m), C.IntValue(2)), W(D(one, C.JacobianDeterminant(m)), C.IntValue(2)))
        yield "f^2 * (1/f)", lambda m, t, g: P(W(f, C.IntValue(2)), D(one, f))
        yield "f^2 * (1/f)^3", lambda m, t, g: P(W(f, C.IntValue(2)), W(D(one, f), C.IntValue(3)))
        yield "(f^3)^2 * 1/(f^6)", lambda m, t, g: P(W(W(f, C.IntValue(3)), C.IntValue(2)), D(one, W(f, C.IntValue(6))))
        yield "(f^2)^0.5 * (1/f)  [sign]", lambda m, t, g: P(W(W(f, C.IntValue(2)), C.FloatValue(0.5)), D(one, f))
        yield "(f^0.5)^2 * (1/f)", lambda m, t, g: P(W(W(f, C.FloatValue(0.5)), C.IntValue(2)), D(one, f))
        yield "(f^2)^1.5 * (1/f)^3 [sign]", lambda m, t, g: P(W(W(f, C.IntValue(2)), C.FloatValue(1.5)), W(D(one, f), C.IntValue(3)))
        yield "f * (1/f)^3 (net -2)", lambda m, t, g: P(P(f, W(D(one, f), C.IntValue(3))), Opq("h"))
        yield "f^0.5 * (1/f)^2 (net -1.5)", lambda m, t, g: P(P(W(f, C.FloatValue(0.5)), W(D(one, f), C.IntValue(2))), Opq("h"))
        yield "detJ * (1/detJ)^3 g (net -2)", lambda m, t, g: P(P(C.JacobianDeterminant(m), W(D(one, C.JacobianDeterminant(m)), C.IntValue(3))), Opq("h"))
        yield "f^2 * (1/f)^5 (net -3)", lambda m, t, g: P(W(f, C.IntValue(2)), W(D(one, f), C.IntValue(5)))
        yield "f^0.5 * 1/(f^0.5)", lambda m, t, g: P(W(f, C.FloatValue(0.5)), D(one, W(f, C.FloatValue(0.5))))
        yield "g * f * h * (1/f)", lambda m, t, g: P(P(Opq("g"), f), P(Opq("h"), D(one, f)))
        yield "f * (1/g) (no cancel)", lambda m, t, g: P(f, D(one, Opq("g")))
        yield "(1/(1/f)) * (1/f)", lambda m, t, g: P(D(one, D(one, f)), D(one, f))
        yield "(f*g) * (1/(f*g)) product base", lambda m, t, g: P(P(f, Opq("g")), D(one, P(f, Opq("g"))))
        # factors that are NOT constant real powers of a base (quotients, symbolic exponents, sums, functions, indexed factors) next to a
        # cancelling pair, with the pair split over nested products: they are carried over unchanged
        p_, q_ = Opq("p"), Opq("q")
        yield "recip+other: ((1/f) (p/q)) f^2", lambda m, t, g: P(P(D(one, f), D(p_, q_)), W(f, C.IntValue(2)))
        yield "recip+other: (f^2 (p/q)) (1/f)", lambda m, t, g: P(P(W(f, C.IntValue(2)), D(p_, q_)), D(one, f))
        yield "recip+other: ((p/q) f) (1/f)", lambda m, t, g: P(P(D(p_, q_), f), D(one, f))
        yield "recip+other: (f p^q) (1/f)^3", lambda m, t, g: P(P(f, W(C.Sum(C.IntValue(2), C.Product(p_, p_)), q_)), W(D(one, f), C.IntValue(3)))
        yield "recip+other: ((2/q) (1/f)) f^2", lambda m, t, g: P(P(D(C.IntValue(2), q_), D(one, f)), W(f, C.IntValue(2)))
        yield "recip+other: (f (p+q)) (1/f)", lambda m, t, g: P(P(f, C.Sum(p_, q_)), D(one, f))
        yield "recip+other: (sin(p) f) ((1/f) q)", lambda m, t, g: P(P(C.Sin(p_), f), P(D(one, f), q_))
        yield "recip+other: (f u_a) (1/f) (free index)", lambda m, t, g: P(P(f, U("u", (2,), a)), D(one, f))
        yield "recip+other: ((1/detJ) (p/q)) detJ^2", lambda m, t, g: P(P(D(one, C.JacobianDeterminant(m)), D(p_, q_)), W(C.JacobianDeterminant(m), C.IntValue(2)))
        yield "recip+other: (f |p|) (1/f) (p/q)", lambda m, t, g: P(P(P(f, C.Abs(p_)), D(one, f)), D(p_, q_))

    pats = list(patterns())
    for mname in MESHES:
        for nm, bld in pats:
            ob(f"pipeline/{nm}", mname, bld, ALL)
    # individual traversals on the patterns they match (so a defect masked by a later pass is still seen)
    first_recip = [n_ for n_, _ in pats].index("f * (1/f)")
    for nm, bld in pats[:first_recip]:
        if nm.startswith(("K_", "J_", "(K_", "sum_", "SHADOW", "zero branch: K_", "piola")):
            ob(f"JacobianCanceller/{nm}", "tri2d", bld, [CJ.JacobianCanceller])
        if nm.startswith(("I_", "CAPTURE", "shared", "traced", "zero branch: I_")):
            ob(f"IdentityEliminator/{nm}", "tri2d", bld, [CJ.IdentityEliminator])
    for nm, bld in pats[first_recip:]:
        ob(f"ReciprocalCanceller/{nm}", "tri2d", bld, [CJ.ReciprocalCanceller])

    # ---- _as_base_exponent: den f == den(base)^exponent, no sign assumption
    def abe(name, mkf):
        def thunk():
            f = mkf()
            pair = CJ._as_base_exponent(f)
            if pair is None:
                return proved("declined", sample=f"{name}: not decomposed")
            base, ex = pair

            def mk(symbolic, valuation):
                return World(symbolic=symbolic, complex_mode=False, valuation=valuation)
            rebuilt = CJ._make_power(base, ex) if ex != 0 else C.IntValue(1)
            return check_same(mk, rebuilt, lambda w, c, env: den(w, f, c, env), (), timeout_ms=tmo,
                              what=f"_as_base_exponent({name}) = (base, {ex}); base**{ex} must equal the factor wherever it is defined")
        run.add(f"_as_base_exponent/{name}", thunk, kind="values")
    f = Opq("f")
    one = C.IntValue(1)
    for nm, mkf in [("f", lambda: f), ("f^2", lambda: C.Power(f, C.IntValue(2))), ("1/f", lambda: C.Division(one, f)),
                    ("(f^2)^0.5", lambda: C.Power(C.Power(f, C.IntValue(2)), C.FloatValue(0.5))),
                    ("(f^0.5)^2", lambda: C.Power(C.Power(f, C.FloatValue(0.5)), C.IntValue(2))),
                    ("(f^3)^2", lambda: C.Power(C.Power(f, C.IntValue(3)), C.IntValue(2))),
                    ("(f^-2)^0.5", lambda: C.Power(C.Division(one, C.Power(f, C.IntValue(2))), C.FloatValue(0.5))),
                    ("1/(1/f)", lambda: C.Division(one, C.Division(one, f))),
                    ("(1/f)^3", lambda: C.Power(C.Division(one, f), C.IntValue(3))),
                    ("((f^2)^2)^0.25", lambda: C.Power(C.Power(C.Power(f, C.IntValue(2)), C.IntValue(2)), C.FloatValue(0.25)))]:
        abe(nm, mkf)

    # ---- _make_power(base, e) denotes base**e for every exponent the canceller can produce (positive, negative, fractional, 0, +-1)
    def make_power():
        from fractions import Fraction as _F
        f_ = Opq("f")
        n = 0
        for e_ in (0, 1, -1, 2, -2, 3, -3, 0.5, -0.5, 1.5, -1.5, 2.5, -2.5, 5, -5):
            r = CJ._make_power(f_, e_) if e_ != 0 else None
            if r is None:
                continue

            def mk(symbolic, valuation):
                return World(symbolic=symbolic, complex_mode=False, valuation=valuation)

            def spec(w, c, env, e_=e_):
                b = den(w, f_, (), {})
                w.require(N.cmp(">", b, 0))
                return den(w, C.Power(f_, C.FloatValue(e_) if isinstance(e_, float) else C.IntValue(e_)), (), {}) if e_ > 0 else \
                    N.div(1, den(w, C.Power(f_, C.FloatValue(-e_) if isinstance(e_, float) else C.IntValue(-e_)), (), {}))
            res = check_same(mk, r, spec, (), timeout_ms=tmo, what=f"_make_power(f, {e_}) == f**{e_} for f > 0")
            n += 1
            if res.status != "proved":
                return res
        return proved("z3", vcs=n, sample=f"_make_power(f, e) == f**e for {n} exponents (positive, negative, fractional)")
    run.add("_make_power/denotes-the-power", make_power, kind="values")

    def canary():
        m = mesh("triangle", 2)
        e = S(C.Product(X(C.JacobianInverse(m), a, k), X(C.Jacobian(m), k, b)), k)
        wrong = X(C.Identity(2), b, a) if False else C.Product(C.IntValue(2), X(C.Identity(2), a, b))
        return check_same(mkworld(2, 2), wrong, lambda w, c, env: den(w, e, c, env), (), e.ufl_free_indices, e.ufl_index_dimensions, what="canary 2*delta")
    run.add("canary/two-delta", canary, kind="canary")
