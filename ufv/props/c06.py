"""C06 — lowering compound tensor algebra preserves values.

Functions under contract: every handler of ufl.algorithms.apply_algebra_lowering.LowerCompoundAlgebra
and all of ufl/compound_expressions.py.  Contract: den(lowered) == den(compound node) — the textbook
definition of the operator (ufv.den) — same shape and free indices, for all real / complex operand
values.  Inverse: A^-1 = adj(A)/det(A) (Leibniz) under det != 0.  Pseudo-determinant: r >= 0 and
r^2 = det(A^T A).  Pseudo-inverse: (A^T A)^-1 A^T.
"""
from __future__ import annotations

import ufl.classes as C
import ufl.compound_expressions as CE
from ufl.algorithms.apply_algebra_lowering import LowerCompoundAlgebra
from ufl.core.multiindex import indices

from ufv import num as N
from ufv.core import undecided, violated, proved
from ufv.den import den, leibniz_det, _cofactor
from ufv.opq import Opq, mesh
from ufv.semv import check_pred, check_same, complex_world, real_world

LEVEL = "proof"
TRUSTED = [
    "ufv/den.py: textbook definitions of dot/inner/outer/cross/perp/transpose/trace/det (Leibniz)/inverse (adjugate/det)/"
    "cofactor/dev/skew/sym incl. conjugation conventions (inner conjugates 2nd, outer conjugates 1st argument)",
    "ufv/num.py: dual-number and complex-pair arithmetic",
    "z3 5.1 (simplify som=True normal form, nlsat), cvc5 1.0.3 as fallback",
    "CPython executing the real handlers on opaque operands (Opq behaves like an arbitrary expression of its shape)",
]
ASSUMPTIONS = [
    "float literals (1.0/2, 2.0/3, (-1)**i, 0.0) denote the rationals they round from",
    "operand shapes are enumerated: square tables n=1..4 (exhaustive for det/adj/cofactor/inverse, which are only implemented "
    "for these), deviatoric 2,3, cross 3, perp 2, pseudo (m,n) in {(2,1),(3,1),(3,2),(4,2),(4,3)}; rank-generic operators "
    "(dot/inner/outer/transposed/trace/skew/sym/differential) at the listed ranks and dims only",
    "sqrt is an uninterpreted function with t*t = x, t >= 0; real mode for pseudo-determinants",
    "termination of the functions under contract is not proved",
]
EXPLANATION = (
    "Each handler of LowerCompoundAlgebra and each function of compound_expressions.py is run unmodified on opaque "
    "operands (arbitrary sub-expressions); the denotation of the returned index-notation term is compared with the "
    "textbook definition of the compound operator for ALL real and complex operand values by z3 (polynomial normal form, "
    "then nlsat; cvc5 fallback). Determinant/adjugate/cofactor/inverse tables are finite (n<=4) so these are complete; "
    "rank-generic operators are proved for all values at enumerated shapes.")


def _names(k):
    return ["A", "B", "Cc"][:k]


def build(run):
    L = LowerCompoundAlgebra()
    thorough = run.tier == "thorough"
    tmo = 20000 if not thorough else 60000
    i, j = indices(2)
    dom2, dom3 = mesh("triangle"), mesh("tetrahedron")

    def handler_ob(hname, cls, shapes, modes=("real", "complex"), fis=None, dom=None, kind="values", gdim=None):
        h = getattr(L, hname)
        run.function(h, f"LowerCompoundAlgebra.{hname}")
        for mode in modes:
            tag = f"LowerCompoundAlgebra.{hname}/shapes{list(shapes)}" + (f"/fi{fis}" if fis else "") + f"/{mode}"

            def thunk(h=h, cls=cls, shapes=shapes, mode=mode, fis=fis, dom=dom, tag=tag):
                ops = []
                for n, sh in enumerate(shapes):
                    fi, fid = (fis[n] if fis else ((), ()))
                    ops.append(Opq(_names(len(shapes))[n], sh, fi, fid, dom=dom))
                try:
                    o = cls(*ops)
                except Exception as ex:  # noqa: BLE001
                    return undecided(f"{tag}: could not build the compound node: {ex}")
                try:
                    r = h(o, *ops)
                except Exception as ex:  # noqa: BLE001
                    return violated(f"{tag}: handler raised {type(ex).__name__}: {ex} on a valid operand",
                                    replay={"operands": [repr(x) for x in ops]}, reproduced=True, backend="exec")
                mk = (real_world if mode == "real" else complex_world)(gdim=gdim)
                return check_same(mk, r, lambda w, c, env: den(w, o, c, env), o.ufl_shape, o.ufl_free_indices,
                                  o.ufl_index_dimensions, timeout_ms=tmo, what=tag)
            run.add(tag, thunk, kind=kind)

    sq = [(2, 2), (3, 3)] + ([(4, 4)] if thorough else [])
    # rank generic
    for sh in [(2, 3), (3, 3)]:
        handler_ob("transposed", C.Transposed, [sh])
    handler_ob("transposed", C.Transposed, [(2, 3)], fis=[((i,), (3,))])
    for sh in sq:
        handler_ob("trace", C.Trace, [sh])
        handler_ob("skew", C.Skew, [sh])
        handler_ob("sym", C.Sym, [sh])
    handler_ob("trace", C.Trace, [(3, 3)], fis=[((i,), (2,))])
    for sa, sb in [((3,), (3,)), ((2, 3), (3,)), ((2, 3), (3, 2)), ((3,), (3, 2))] + ([((2, 2, 3), (3, 2))] if thorough else []):
        handler_ob("dot", C.Dot, [sa, sb])
    handler_ob("dot", C.Dot, [(2, 3), (3,)], fis=[((i,), (2,)), ((j,), (3,))])
    for sh in [(3,), (2, 3)] + ([(2, 2, 2)] if thorough else []):
        handler_ob("inner", C.Inner, [sh, sh])
    handler_ob("inner", C.Inner, [(2,), (2,)], fis=[((i,), (2,)), ((j,), (3,))])
    for sa, sb in [((2,), (3,)), ((2, 3), (2,))] + ([((2,), (2, 3))] if thorough else []):
        handler_ob("outer", C.Outer, [sa, sb])
    handler_ob("outer", C.Outer, [(2,), (3,)], fis=[((i,), (2,)), ((j,), (3,))])
    # finite tables (exhaustive over the shapes the operator is defined on) -> 'proof'
    handler_ob("cross", C.Cross, [(3,), (3,)], kind="proof")
    handler_ob("perp", C.Perp, [(2,)], kind="proof")
    for n in (2, 3):
        handler_ob("deviatoric", C.Deviatoric, [(n, n)], kind="proof")
    for n in (2, 3, 4):
        handler_ob("determinant", C.Determinant, [(n, n)], kind="proof")
        handler_ob("cofactor", C.Cofactor, [(n, n)], kind="proof")
        handler_ob("inverse", C.Inverse, [(n, n)], kind="proof", modes=("real", "complex") if n < 4 or thorough else ("real",))
    # compound differential operators (spec: derivative by dual numbers)
    for hname, cls, shs, dom, g in [
        ("div", C.Div, [(2,)], dom2, 2), ("div", C.Div, [(3, 3)], dom3, 3), ("nabla_div", C.NablaDiv, [(2, 3)], dom2, 2),
        ("nabla_grad", C.NablaGrad, [()], dom2, 2), ("nabla_grad", C.NablaGrad, [(3,)], dom2, 2),
        ("nabla_grad", C.NablaGrad, [(2, 3)], dom3, 3),
        ("curl", C.Curl, [()], dom2, 2), ("curl", C.Curl, [(2,)], dom2, 2), ("curl", C.Curl, [(3,)], dom3, 3),
    ]:
        handler_ob(hname, cls, shs, dom=dom, gdim=g, kind="proof" if hname == "curl" else "values")

    # ---- compound_expressions.py directly (used by geometry lowering as well)
    def ce_ob(fname, shape, spec, mode="real", kind="proof"):
        f = getattr(CE, fname)
        run.function(f, f"ufl.compound_expressions.{fname}")
        tag = f"compound_expressions.{fname}/shape{shape}/{mode}"

        def thunk():
            A = Opq("A", shape)
            r = f(A)
            mk = (real_world if mode == "real" else complex_world)()
            return spec(mk, A, r, tag)
        run.add(tag, thunk, kind=kind)

    def M(w, A):
        return lambda r, c: den(w, A, (r, c))

    def det_spec(mk, A, r, tag):
        n = A.ufl_shape[0]
        return check_same(mk, r, lambda w, c, env: leibniz_det(M(w, A), n), (), timeout_ms=tmo, what=tag)

    def adj_spec(mk, A, r, tag):
        n = A.ufl_shape[0]
        return check_same(mk, r, lambda w, c, env: _cofactor(M(w, A), n, c[1], c[0]), (n, n), timeout_ms=tmo, what=tag)

    def cof_spec(mk, A, r, tag):
        n = A.ufl_shape[0]
        return check_same(mk, r, lambda w, c, env: _cofactor(M(w, A), n, c[0], c[1]), (n, n), timeout_ms=tmo, what=tag)

    def inv_spec(mk, A, r, tag):
        n = A.ufl_shape[0]

        def spec(w, c, env):
            det = leibniz_det(M(w, A), n)
            w.require(N.cmp("!=", det, 0))
            return N.div(_cofactor(M(w, A), n, c[1], c[0]), det)
        return check_same(mk, r, spec, (n, n), timeout_ms=tmo, what=tag)

    for n in (1, 2, 3, 4) + ((5,) if thorough else ()):
        ce_ob("determinant_expr", (n, n), det_spec)
        if n >= 2:
            ce_ob("determinant_expr", (n, n), det_spec, mode="complex")
    for n in (2, 3, 4):
        ce_ob("adj_expr", (n, n), adj_spec)
        ce_ob("cofactor_expr", (n, n), cof_spec)
    for n in (1, 2, 3, 4):
        ce_ob("inverse_expr", (n, n), inv_spec)

    def gram(w, A):
        m, n = A.ufl_shape

        def G(r, c):
            t = 0
            for k in range(m):
                t = N.add(t, N.mul(den(w, A, (k, r)), den(w, A, (k, c))))
            return t
        return G

    def pdet_spec(mk, A, r, tag):
        m, n = A.ufl_shape
        if r.ufl_shape != () or r.ufl_free_indices != ():
            return violated(f"{tag}: shape/free indices {r.ufl_shape}{r.ufl_free_indices}", reproduced=True, backend="structural")

        def goal(w):
            t = den(w, r)
            return N.band(N.cmp(">=", t, 0), N.cmp("==", N.mul(t, t), leibniz_det(gram(w, A), n)))
        return check_pred(mk, goal, what=tag + " : r >= 0 and r^2 == det(A^T A)", timeout_ms=tmo)

    def pinv_spec(mk, A, r, tag):
        m, n = A.ufl_shape

        def spec(w, c, env):
            G = gram(w, A)
            det = leibniz_det(G, n)
            w.require(N.cmp("!=", det, 0))
            tot = 0
            for q in range(n):
                ginv = N.div(_cofactor(G, n, q, c[0]), det)   # (G^-1)[c0][q] = cof[q][c0]/det
                tot = N.add(tot, N.mul(ginv, den(w, A, (c[1], q))))
            return tot
        return check_same(mk, r, spec, (n, m), timeout_ms=max(tmo, 30000), what=tag)

    rect = [(2, 1), (3, 1), (3, 2), (4, 2)]      # (4, 3): the Gram-determinant identity (degree 6 in 12 unknowns under a square root) times out in z3 and cvc5: not claimed
    for sh in rect:
        ce_ob("pseudo_determinant_expr", sh, pdet_spec)
        ce_ob("determinant_expr", sh, pdet_spec)
    for sh in [(2, 1), (3, 1), (3, 2)] + ([(4, 2)] if thorough else []):
        ce_ob("pseudo_inverse_expr", sh, pinv_spec)
        ce_ob("inverse_expr", sh, pinv_spec)

    def dev_spec(mk, A, r, tag):
        n = A.ufl_shape[0]
        o = C.Deviatoric(A)
        return check_same(mk, r, lambda w, c, env: den(w, o, c, env), (n, n), timeout_ms=tmo, what=tag)
    for n in (2, 3):
        ce_ob("deviatoric_expr", (n, n), dev_spec)

    run.function(CE.cross_expr, "ufl.compound_expressions.cross_expr")

    def cross_thunk():
        a, b = Opq("A", (3,)), Opq("B", (3,))
        return check_same(real_world(), CE.cross_expr(a, b), lambda w, c, env: den(w, C.Cross(a, b), c, env), (3,),
                          timeout_ms=tmo, what="cross_expr")
    run.add("compound_expressions.cross_expr/real", cross_thunk, kind="proof")

    # ---- canary: a deliberately wrong spec must be refuted
    # ---- degenerate operands through the public functions: zero tensors (literal, lists of literal zeros, 0*A) of rectangular shapes.  The constructors
    # fold them before any lowering rule runs: the folded result still has the operator's textbook shape and lowers to a vanishing expression of that shape
    def zero_operands():
        import ufl
        from ufl.algorithms.apply_algebra_lowering import apply_algebra_lowering
        A23, A32, A33, v2, v3 = Opq("A", (2, 3)), Opq("B", (3, 2)), Opq("S", (3, 3)), Opq("v", (2,)), Opq("w", (3,))

        def zeros(sh):
            yield "zero(shape)", C.Zero(sh)
            yield "0*A", C.IntValue(0) * Opq("Z", sh)
            if len(sh) == 2:
                yield "list of literal zeros", ufl.as_matrix([[0] * sh[1] for _ in range(sh[0])])
        cases = []
        for sh in ((2, 3), (3, 2), (4, 2), (3, 3)):
            for zn, Z in zeros(sh):
                cases += [(f"transpose({zn} {sh})", lambda Z=Z: ufl.transpose(Z), sh[::-1]), (f"{zn} {sh}.T", lambda Z=Z: Z.T, sh[::-1])]
                if sh[0] == sh[1]:
                    cases += [(f"{fn.__name__}({zn} {sh})", (lambda Z=Z, fn=fn: fn(Z)), sh) for fn in (ufl.sym, ufl.skew, ufl.dev)]
                    cases += [(f"tr({zn} {sh})", lambda Z=Z: ufl.tr(Z), ())]
        for zn, Z in zeros((2, 3)):
            cases += [(f"dot({zn}(2,3), w(3))", lambda Z=Z: ufl.dot(Z, v3), (2,)), (f"dot(v(2), {zn}(2,3))", lambda Z=Z: ufl.dot(v2, Z), (3,)), (f"dot({zn}(2,3), B(3,2))", lambda Z=Z: ufl.dot(Z, A32), (2, 2)),
                      (f"dot(B(3,2), {zn}(2,3))", lambda Z=Z: ufl.dot(A32, Z), (3, 3)), (f"inner({zn}(2,3), A(2,3))", lambda Z=Z: ufl.inner(Z, A23), ()), (f"outer({zn}(2,3), v(2))", lambda Z=Z: ufl.outer(Z, v2), (2, 3, 2)),
                      (f"outer(w(3), {zn}(2,3))", lambda Z=Z: ufl.outer(v3, Z), (3, 2, 3)), (f"inner(B, transpose({zn}(2,3)))", lambda Z=Z: ufl.inner(A32, ufl.transpose(Z)), ()),
                      (f"dot(transpose({zn}(2,3)), v(2))", lambda Z=Z: ufl.dot(ufl.transpose(Z), v2), (3,))]
        n = 0
        for nm, mk_, want in cases:
            try:
                e = mk_()
                r = apply_algebra_lowering(e)
            except Exception as ex:  # noqa: BLE001
                return violated(f"{nm}: raised {type(ex).__name__}: {ex} on a legal operand", replay={"case": nm}, reproduced=True, backend="exec")
            n += 1
            for what, x_ in (("the constructed expression", e), ("its lowering", r)):
                if tuple(x_.ufl_shape) != tuple(want):
                    return violated(f"{nm}: {what} has shape {x_.ufl_shape}, the operator's shape is {want}", replay={"case": nm, "got": list(x_.ufl_shape), "want": list(want)},
                                    reproduced=True, backend="structural")
            if not isinstance(r, C.Zero):
                res = check_same(real_world(), r, lambda w, c, env: 0, want, timeout_ms=tmo, what=f"{nm} vanishes")
                if res.status != "proved":
                    return res
        return proved("exec+structural", vcs=n, sample=f"{n} compound operators on zero operands (three spellings, rectangular shapes): textbook shape before and after lowering, value 0")
    run.add("public-operators/zero-operands-keep-the-operator-shape", zero_operands, kind="values")

    # ---- operands that carry a FREE INDEX: a compound operator either refuses them or its node reports exactly the free indices (and shape) its lowering has
    def free_index_operands():
        import ufl
        from ufl.algorithms.apply_algebra_lowering import apply_algebra_lowering
        from ufl.core.multiindex import Index as _Index
        import ufv.elements as _E
        from ufv.core import crash_text, deliberate
        tri_ = mesh("triangle")
        T2 = ufl.Coefficient(ufl.FunctionSpace(tri_, _E.LagrangeElement(tri_.ufl_cell(), 1, (2, 2))))
        T3 = ufl.Coefficient(ufl.FunctionSpace(tri_, _E.LagrangeElement(tri_.ufl_cell(), 1, (2, 2, 2))))
        k_ = _Index()
        vec_k = ufl.as_vector([T2[0, k_], T2[1, k_]])                       # a 2-vector carrying the free index k
        mat_k = ufl.as_matrix([[T3[0, 0, k_], T3[0, 1, k_]], [T3[1, 0, k_], T3[1, 1, k_]]])      # a 2x2 matrix carrying k
        ops = {"perp": (ufl.perp, vec_k), "transpose": (ufl.transpose, mat_k), "tr": (ufl.tr, mat_k), "det": (ufl.det, mat_k), "inv": (ufl.inv, mat_k), "cofac": (ufl.cofac, mat_k),
               "dev": (ufl.dev, mat_k), "skew": (ufl.skew, mat_k), "sym": (ufl.sym, mat_k), "diag": (ufl.diag, mat_k), "diag_vector": (ufl.diag_vector, mat_k),
               "outer(a, a)": (lambda a_: ufl.outer(a_, vec_k), T2[:, 0]), "inner(a, a)": (lambda a_: ufl.inner(a_, T2[:, 0]), vec_k), "dot(A, a)": (lambda a_: ufl.dot(a_, T2[:, 0]), mat_k),
               "cross-free: elem_mult": (lambda a_: ufl.elem_mult(a_, T2[:, 0]), vec_k)}
        n = 0
        for nm_, (op_, arg_) in ops.items():
            try:
                e_ = op_(arg_)
            except (ValueError, NotImplementedError) as ex:
                if not deliberate(ex):
                    return violated(f"{nm_} of an operand with a free index crashed: {crash_text(ex)}", reproduced=True, backend="exec")
                n += 1
                continue            # refused
            try:
                low = apply_algebra_lowering(e_)
            except (ValueError, NotImplementedError) as ex:
                return violated(f"{nm_} accepts an operand with a free index but its lowering fails: {crash_text(ex)}", replay={"operator": nm_}, reproduced=True, backend="exec")
            n += 1
            if tuple(e_.ufl_free_indices) != tuple(low.ufl_free_indices) or tuple(e_.ufl_shape) != tuple(low.ufl_shape):
                return violated(f"{nm_} of an operand with the free index {k_}: the node reports shape {e_.ufl_shape} and free indices {e_.ufl_free_indices}, its lowering has shape "
                                f"{low.ufl_shape} and free indices {low.ufl_free_indices}", replay={"operator": nm_, "node": str(e_)[:300], "lowered": str(low)[:300]}, reproduced=True, backend="structural")
        return proved("exec+structural", vcs=n, sample=f"{n} compound operators on operands carrying a free index: refused, or shape and free indices agree with the lowering")
    run.add("public-operators/operands-with-free-indices", free_index_operands, kind="values")

    def canary():
        A = Opq("A", (2, 2))
        r = CE.determinant_expr(A)
        return check_same(real_world(), r, lambda w, c, env: N.add(leibniz_det(M(w, A), 2), den(w, A, (0, 0))), (),
                          what="canary det+A00")
    run.add("canary/det-plus-A00", canary, kind="canary")

TECHNIQUE = ("contract VCs: real lowering handlers executed on opaque operands; den(result) == textbook operator definition "
             "discharged for all real/complex values by z3 (polynomial normal form / nlsat), cvc5 fallback")
LEVEL_TEXT = ("Deductive: every handler of LowerCompoundAlgebra and every function of compound_expressions.py satisfies its "
              "postcondition 'value, shape and free indices equal the compound operator's definition' for all operand values; "
              "finite operator tables (det/adj/cofactor/inverse n<=4, dev 2-3, cross, perp, curl, pseudo m x n) are covered "
              "exhaustively; rank-generic operators at enumerated shapes. The run downgrades itself to 'other' if any obligation is undecided.")
LEVEL_NOTE = ("Trusted: the spec function ufv/den.py, dual/complex arithmetic ufv/num.py, z3/cvc5, CPython running the real "
              "handlers on opaque operands; float literals read as rationals; shapes of rank-generic operators enumerated; termination not proved.")
