"""Opaque operands: UFL nodes about which nothing is known but shape, free indices and the
symbol denoting their value.  Registered as UFL types at import, *before* any algorithm class
is instantiated (so the checker is not itself exposed to late-registration effects, C20).

Opq is an Operator (so `_ufl_is_terminal_` is False and no terminal shortcut applies) with one
hidden operand, an Anchor terminal, which carries a mesh and answers is_cellwise_constant().
"""
from __future__ import annotations

import warnings

warnings.simplefilter("ignore")

from ufl.core.multiindex import Index  # noqa: E402
from ufl.core.operator import Operator  # noqa: E402
from ufl.core.terminal import Terminal  # noqa: E402
from ufl.core.ufl_type import ufl_type  # noqa: E402


class OpaqueLeak(Exception):
    """The code under verification asked an opaque operand something it cannot answer faithfully."""


@ufl_type()
class Anchor(Terminal):
    __slots__ = ("_name", "_dom", "_const")

    def __init__(self, name, dom=None, const=False):
        Terminal.__init__(self)
        self._name = name
        self._dom = dom
        self._const = const

    ufl_shape = ()

    def ufl_domains(self):
        return () if self._dom is None else (self._dom,)

    def is_cellwise_constant(self):
        return self._const

    def __repr__(self):
        return f"Anchor({self._name!r})"

    def __str__(self):
        return f"@{self._name}"

    def _ufl_signature_data_(self, renumbering):
        return ("Anchor", self._name)

    def _ufl_compute_hash_(self):
        return hash(("Anchor", self._name))

    def __eq__(self, o):
        return isinstance(o, Anchor) and o._name == self._name


@ufl_type(num_ops=1)
class Opq(Operator):
    """Opaque operand. `fi` may be Index objects or ints; `fid` their dimensions."""

    __slots__ = ("_name", "ufl_shape", "ufl_free_indices", "ufl_index_dimensions", "_real")

    def __init__(self, name, shape=(), fi=(), fid=(), dom=None, const=False, real=False):
        Operator.__init__(self, (Anchor(name, dom, const),))
        self._name = name
        self.ufl_shape = tuple(shape)
        pairs = sorted(zip((i.count() if isinstance(i, Index) else i for i in fi), fid))
        self.ufl_free_indices = tuple(p[0] for p in pairs)
        self.ufl_index_dimensions = tuple(p[1] for p in pairs)
        self._real = real

    def __repr__(self):
        return f"Opq({self._name!r}, {self.ufl_shape}, {self.ufl_free_indices}, {self.ufl_index_dimensions})"

    def __str__(self):
        return f"<{self._name}>"

    def _ufl_expr_reconstruct_(self, *ops):
        if tuple(ops) != tuple(self.ufl_operands):
            raise OpaqueLeak(f"opaque node {self._name} rebuilt with different operands")
        return self

    def _ufl_compute_hash_(self):
        return hash(("Opq", self._name, self.ufl_shape, self.ufl_free_indices))

    def __eq__(self, o):
        return (isinstance(o, Opq) and o._name == self._name and o.ufl_shape == self.ufl_shape
                and o.ufl_free_indices == self.ufl_free_indices
                and o.ufl_index_dimensions == self.ufl_index_dimensions)

    def evaluate(self, x, mapping, component, index_values):
        f = mapping[self]
        return f(component, tuple(index_values[i] for i in self.ufl_free_indices)) if callable(f) else f


def is_opq(e):
    return isinstance(e, Opq)


# ----------------------------------------------------------------------------- meshes
_MESHES = {}


def mesh(cellname="triangle", gdim=None):
    """A mesh on an affine simplex cell with a P1 vector coordinate element (cached)."""
    import ufl
    from ufv.elements import LagrangeElement

    cell = getattr(ufl, cellname)
    if gdim is None:
        gdim = cell.topological_dimension
    key = (cellname, gdim)
    if key not in _MESHES:
        _MESHES[key] = ufl.Mesh(LagrangeElement(cell, 1, (gdim,)))
    return _MESHES[key]


@ufl_type(num_ops="varying")
class OpqDep(Operator):
    """Opaque operand that (visibly, for traversals) depends on given terminals, e.g. form arguments.
    Its value is an arbitrary function of them; specs constrain it through World.opq_hook."""

    __slots__ = ("_name", "ufl_shape", "ufl_free_indices", "ufl_index_dimensions", "_real", "_deps")

    def __init__(self, name, deps, shape=(), fi=(), fid=(), dom=None, const=False):
        Operator.__init__(self, (Anchor(name, dom, const),) + tuple(deps))
        self._name = name
        self._deps = tuple(deps)
        self.ufl_shape = tuple(shape)
        pairs = sorted(zip((i.count() if isinstance(i, Index) else i for i in fi), fid))
        self.ufl_free_indices = tuple(p[0] for p in pairs)
        self.ufl_index_dimensions = tuple(p[1] for p in pairs)
        self._real = False

    def __repr__(self):
        return f"OpqDep({self._name!r}, {self._deps!r}, {self.ufl_shape})"

    def __str__(self):
        return f"<{self._name}({', '.join(map(str, self._deps))})>"

    def _ufl_expr_reconstruct_(self, *ops):
        if tuple(ops) != tuple(self.ufl_operands):
            raise OpaqueLeak(f"opaque node {self._name} rebuilt with different operands")
        return self

    def _ufl_compute_hash_(self):
        return hash(("OpqDep", self._name, self.ufl_shape, self.ufl_free_indices))

    def __eq__(self, o):
        return (isinstance(o, OpqDep) and o._name == self._name and o.ufl_shape == self.ufl_shape
                and o.ufl_free_indices == self.ufl_free_indices and o._deps == self._deps)
