"""The spec function: denotational semantics of UFL terms.

den(world, e, comp, env) maps a UFL term, a component (tuple of ints, one per axis of
e.ufl_shape) and an index environment (index count -> int) to a value of the number algebra
(ufv.num).  It is a direct transcription of the language definition and is independent of
every function under verification: it never calls `evaluate`, a UFL constructor, or an algorithm.

World = the valuation: what opaque operands / terminals denote, which derivative layers are
active, real or complex mode, which side of a facet we are on.
"""
from __future__ import annotations

import itertools
import math
from fractions import Fraction

import z3

from ufv import num as N
from ufv.num import Unsupported
from ufv.opq import Opq, OpqDep

import ufl.classes as C
from ufl.core.multiindex import FixedIndex, Index
from ufl.mathfunctions import MathFunction, BesselFunction


def components(shape):
    return list(itertools.product(*[range(s) for s in shape]))


def envs(fi, fid):
    return [dict(zip(fi, vals)) for vals in itertools.product(*[range(n) for n in fid])]


def float_to_fraction(v):
    """Float literals denote the rational they were written as (1 ulp), cf. DESIGN §4."""
    if isinstance(v, int):
        return Fraction(v)
    q = Fraction(v).limit_denominator(10 ** 6)
    if abs(float(q) - v) <= 2.3e-16 * max(1.0, abs(v)):
        return q
    return Fraction(v)


_NAMED = [("pi", math.pi), ("e", math.e)]


# ----------------------------------------------------------------------------- layers
def split_side(name):
    """'a{+}' -> ('a', '{+}') : the facet-side suffix World.symbol appends to atom names."""
    k = name.find("{")
    return (name, "") if k < 0 else (name[:k], name[k:])


class Layer:
    """A derivation direction.  derive(desc) -> desc' | None (zero) | ('const', q)."""

    def derive(self, desc, world):
        raise NotImplementedError

    def key(self):
        """Hashable content key (used to memoise denotations per layer stack)."""
        return (type(self).__name__,) + tuple(
            (k, tuple(sorted(v.items())) if isinstance(v, dict) else (v if isinstance(v, (int, str, tuple, type(None))) else id(v)))
            for k, v in sorted(self.__dict__.items()))


class SpatialLayer(Layer):
    """d/dx_k.  seed: operand name -> name of the opaque stand-in for its gradient
    (stand-in component = comp + (k,)).  Unseeded symbols get a fresh symbol `f,k`
    (symmetric in repeated directions); names in world.spatial_const have derivative 0."""

    def __init__(self, k, seed=None, kind="x"):
        self.k = k
        self.seed = seed or {}
        self.kind = kind  # 'x' physical, 'X' reference

    def derive(self, desc, world):
        name, comp, idx, dirs = desc
        base, sfx = split_side(name)
        if base in world.spatial_const:
            return None
        if name == "X" or name.startswith("X{"):
            # reference coordinate symbol of the cell model
            if self.kind == "X":
                return ("const", 1 if comp[0] == self.k else 0)
            if world.x_via_X is not None:
                tdim, Kfn = world.x_via_X
                return ("lin", [((lambda wv, c0=comp[0]: Kfn(wv, c0, self.k)), ("__one__", (), (), ()))])
            raise Unsupported("physical derivative of the reference coordinate symbol")
        if name == "__one__":
            return None
        if base == "x" and self.kind == "x" and world.x_via_X is None and not dirs:
            return ("const", 1 if comp[0] == self.k else 0)      # dx_i/dx_k (atoms world without a cell model)
        if base in self.seed:
            if dirs:
                raise Unsupported("second derivative of a seeded operand")
            return (self.seed[base] + sfx, tuple(comp) + (self.k,), idx, ())
        if world.two_sided and not sfx:
            # derivatives of a quantity that is continuous across a facet are still one-sided
            if world.side_of_facet is None:
                raise Unsupported("derivative of a terminal on an interior facet without a restriction")
            name = base + "{" + world.side_of_facet + "}"
        if self.kind == "x" and world.x_via_X is not None:
            # affine cell: d/dx_k = sum_j K[j,k] d/dX_j  (K constant on the cell)
            tdim, Kfn = world.x_via_X
            return ("lin", [((lambda wv, j=j: Kfn(wv, j, self.k)), (name, comp, idx, tuple(sorted(dirs + (("X", j),))))) for j in range(tdim)])
        return (name, comp, idx, tuple(sorted(dirs + ((self.kind, self.k),))))


class GateauxLayer(Layer):
    """d/dtau at tau=0 of w + tau v.  seed: name -> name of derivative stand-in whose component
    is comp + vc (vc = component of the variation space).  Unseeded symbols do not depend on w."""

    def __init__(self, seed, vc=()):
        self.seed = seed
        self.vc = tuple(vc)

    def derive(self, desc, world):
        name, comp, idx, dirs = desc
        base, sfx = split_side(name)
        if base in self.seed:
            s = self.seed[base]
            if callable(s):
                return s(desc, world)       # component-wise / linear-combination variations
            return (s + sfx, tuple(comp) + self.vc, idx, dirs)
        return None


class NullLayer(Layer):
    def derive(self, desc, world):
        return None


class VarLayer(Layer):
    """d/d v[cv] for the variable with the given label; handled at Variable nodes.
    seed as in GateauxLayer (for opaque operands with an induction-hypothesis stand-in)."""

    def __init__(self, label, cv, seed=None):
        self.label = label
        self.cv = tuple(cv)
        self.seed = seed or {}

    def derive(self, desc, world):
        name, comp, idx, dirs = desc
        base, sfx = split_side(name)
        if base in self.seed:
            return (self.seed[base] + sfx, tuple(comp) + self.cv, idx, dirs)
        return None


# ----------------------------------------------------------------------------- world
class World:
    def __init__(self, symbolic=True, complex_mode=False, gdim=None, valuation=None):
        self.symbolic = symbolic
        self.complex = complex_mode
        self.gdim = gdim
        self.funcs = N.Funcs(symbolic)
        self.layers = []
        self.syms = {}
        self.spatial_const = set()
        self.real_names = set()      # opaque names known to be real-valued in complex mode
        self.side_of_facet = None    # '+' / '-' or None
        self.valuation = valuation   # concrete mode: callable(symname) -> number
        self.terminal_hook = None    # callable(world, e, comp, env) -> value | NotImplemented
        self.opq_hook = None         # callable(world, e, comp, env) -> value | NotImplemented (defines opaque operands)
        self.operator_hook = None    # callable(world, e, comp, env) -> value | NotImplemented (tried first for every non-terminal)
        self.extra_axioms = []
        self._memos = {}
        self.two_sided = False       # interior-facet semantics: values live on the '+' or '-' side
        self.x_via_X = None          # (tdim, Kfn(world, j, i)) : physical derivatives expressed through reference ones

    # -- bookkeeping
    @property
    def axioms(self):
        return self.funcs.axioms + self.extra_axioms

    @property
    def side(self):
        return self.funcs.side

    def require(self, cond):
        if cond is True:
            return
        self.funcs.side.append(cond)

    def const(self, q):
        return N.bconst(q, self.symbolic)

    def memo(self):
        sig = (tuple(L.key() for L in self.layers), self.side_of_facet, id(self.opq_hook), id(self.terminal_hook), id(getattr(self, 'operator_hook', None)),
               tuple(sorted(self.spatial_const)), self.complex)
        m = self._memos.get(sig)
        if m is None:
            m = self._memos[sig] = {"__keep__": (self.opq_hook, self.terminal_hook)}
        return m

    def with_layers(self, layers):
        w = World.__new__(World)
        w.__dict__.update(self.__dict__)
        w.layers = list(layers)
        return w

    def on_side(self, side):
        w = World.__new__(World)
        w.__dict__.update(self.__dict__)
        w.side_of_facet = side
        return w

    # -- symbols
    def symname(self, desc):
        name, comp, idx, dirs = desc
        s = f"{name}[{','.join(map(str, comp))}|{','.join(map(str, idx))}]"
        if dirs:
            s += "," + "".join(f"{k}{d}" for k, d in dirs)
        return s

    def base_symbol(self, desc, part=""):
        if desc[0] == "__one__":
            return 0 if part == ".im" else 1
        nm = self.symname(desc) + part
        if self.symbolic:
            if nm not in self.syms:
                self.syms[nm] = z3.Real(nm)
            return self.syms[nm]
        return self.valuation(nm)

    def _build(self, desc, i, part):
        if desc is None:
            return 0
        if desc[0] == "const":
            return 0 if part == ".im" else self.const(desc[1])
        if desc[0] == "lin":
            # linear combination sum_t coef_t * symbol_t ; coefficients are constants w.r.t. all deeper layers
            # (a callable coefficient is evaluated under the deeper layers, so that an outer derivative can differentiate it, e.g. K = J^-1 in
            # d/dx = K^T d/dX when an enclosing layer varies the cell's vertices)
            tot = 0
            for coef, d2 in desc[1]:
                if callable(coef):
                    coef = coef(self.with_layers(self.layers[i:]))
                tot = N.add(tot, N.mul(coef, self._build(d2, i, part)))
            return tot
        if i == len(self.layers):
            return self.base_symbol(desc, part)
        L = self.layers[i]
        return N.Dual(self._build(desc, i + 1, part), self._build(L.derive(desc, self), i + 1, part))

    def symbol(self, name, comp=(), idx=(), real=False, side_dependent=True):
        """Value of a named atom under all active layers."""
        if self.side_of_facet is not None and side_dependent:
            name = f"{name}{{{self.side_of_facet}}}"
        desc = (name, tuple(comp), tuple(idx), ())
        if self.complex and not real and name not in self.real_names:
            return N.Cx(self._build(desc, 0, ".re"), self._build(desc, 0, ".im"))
        return self._build(desc, 0, "")

    def opq(self, e, comp, env):
        idx = tuple(env[i] for i in e.ufl_free_indices)
        return self.symbol(e._name, comp, idx, real=e._real)

    def derive(self, layer, thunk):
        """Derivative along `layer` of the value computed by thunk(world')."""
        w = self.with_layers([layer] + self.layers)
        v = thunk(w)
        if isinstance(v, N.Cx):
            re = v.re.d if isinstance(v.re, N.Dual) else 0
            im = v.im.d if isinstance(v.im, N.Dual) else 0
            return N.Cx(re, im)
        return v.d if isinstance(v, N.Dual) else 0


# ----------------------------------------------------------------------------- den
def mi_values(mi, env):
    return tuple(int(i) if isinstance(i, FixedIndex) else env[i.count()] for i in mi)


def _perm_sign(p):
    s = 1
    p = list(p)
    for a in range(len(p)):
        for b in range(a + 1, len(p)):
            if p[a] == p[b]:
                return 0
            if p[a] > p[b]:
                s = -s
    return s


def leibniz_det(M, n):
    """Determinant by the Leibniz formula; M(r, c) -> value."""
    tot = 0
    for p in itertools.permutations(range(n)):
        t = _perm_sign(p)
        for r in range(n):
            t = N.mul(t, M(r, p[r]))
        tot = N.add(tot, t)
    return tot


def den(w: World, e, comp=(), env=None):
    """Memoised front end of _den (the lowered expressions are DAGs with heavy sharing)."""
    env = env or {}
    comp = tuple(comp)
    memo = w.memo()
    key = (id(e), comp, tuple((i, env.get(i)) for i in e.ufl_free_indices))
    hit = memo.get(key)
    if hit is not None and hit[0] is e:
        return hit[1]
    v = _den(w, e, comp, env)
    memo[key] = (e, v)
    return v


def _den(w: World, e, comp, env):
    d = lambda x, c=(), en=None: den(w, x, c, env if en is None else en)  # noqa: E731
    if isinstance(e, (Opq, OpqDep)):
        if w.opq_hook is not None:
            r = w.opq_hook(w, e, comp, env)
            if r is not NotImplemented:
                return r
        return w.opq(e, comp, env)
    if getattr(w, "operator_hook", None) is not None and not e._ufl_is_terminal_:
        r = w.operator_hook(w, e, comp, env)
        if r is not NotImplemented:
            return r
    if len(comp) != len(e.ufl_shape):
        raise Unsupported(f"component {comp} for shape {e.ufl_shape} of {type(e).__name__}")

    # ---- literals
    if isinstance(e, C.Zero):
        return 0
    if isinstance(e, C.ComplexValue):
        v = e._value
        return N.Cx(w.const(float_to_fraction(v.real)), w.const(float_to_fraction(v.imag))) if w.complex else (
            _raise(Unsupported("complex literal in real mode")))
    if isinstance(e, C.ScalarValue):
        v = e._value
        if isinstance(v, float):
            for nm, val in _NAMED:
                if v == val:
                    return w.funcs.named_const(nm)
            if v == 2.0 / math.sqrt(math.pi):
                return N.div(2, w.funcs.apply("sqrt", w.funcs.named_const("pi")))
            if v == math.sqrt(math.pi):
                return w.funcs.apply("sqrt", w.funcs.named_const("pi"))
        return w.const(float_to_fraction(v))
    if isinstance(e, C.Identity):
        return 1 if comp[0] == comp[1] else 0
    if isinstance(e, C.PermutationSymbol):
        return _perm_sign(comp)

    ops = e.ufl_operands
    # ---- algebra
    if isinstance(e, C.Sum):
        return N.add(d(ops[0], comp), d(ops[1], comp))
    if isinstance(e, C.Product):
        return N.mul(d(ops[0]), d(ops[1]))
    if isinstance(e, C.Division):
        b = d(ops[1])
        w.require(N.cmp("!=", b, 0))
        return N.div(d(ops[0], comp), b)
    if isinstance(e, C.Power):
        return _power(w, d(ops[0]), ops[1], d)
    if isinstance(e, C.Abs):
        return N.absval(d(ops[0], comp), w.funcs)
    if isinstance(e, C.Conj):
        return N.conj(d(ops[0], comp))
    if isinstance(e, C.Real):
        return N.real(d(ops[0], comp))
    if isinstance(e, C.Imag):
        return N.imag(d(ops[0], comp))

    # ---- index notation
    if isinstance(e, C.Indexed):
        return d(ops[0], mi_values(ops[1], env))
    if isinstance(e, C.ListTensor):
        return d(ops[comp[0]], comp[1:])
    if isinstance(e, C.ComponentTensor):
        env2 = dict(env)
        for i, c in zip(ops[1], comp):
            env2[i.count()] = c
        return d(ops[0], (), env2)
    if isinstance(e, C.IndexSum):
        (i,) = ops[1]
        tot = 0
        for k in range(e.dimension()):
            env2 = dict(env)
            env2[i.count()] = k
            tot = N.add(tot, d(ops[0], comp, env2))
        return tot
    if isinstance(e, C.Variable):
        return _variable(w, e, comp, env)

    # ---- conditionals
    if isinstance(e, C.Conditional):
        c = cond(w, ops[0], env)
        return N.ite(c, d(ops[1], comp), d(ops[2], comp))
    if isinstance(e, C.MinValue):
        a, b = d(ops[0]), d(ops[1])
        return N.ite(N.cmp("<", a, b), a, b)
    if isinstance(e, C.MaxValue):
        a, b = d(ops[0]), d(ops[1])
        return N.ite(N.cmp(">", a, b), a, b)

    # ---- elementary functions
    if isinstance(e, MathFunction):
        x = d(ops[0])
        if isinstance(x, N.Cx):
            if N.is_base(x.im) and N.is_zero_const(x.im):
                x = x.re
            else:
                raise Unsupported("math function of a complex value")
        v = w.funcs.apply(e._name, x)
        if w.complex and e._name in ("sqrt", "ln", "acos", "asin"):
            # not closed over the reals: a real argument may give a complex value (sqrt/ln of negatives, acos/asin beyond [-1,1])
            return N.Cx(v, w.funcs.apply(e._name + "_im", N.base_value(x)))
        return v
    if isinstance(e, C.Atan2):
        return w.funcs.apply("atan2", d(ops[0]), d(ops[1]))
    if isinstance(e, BesselFunction):
        kind = {"cyl_bessel_j": "J", "cyl_bessel_y": "Y", "cyl_bessel_i": "I", "cyl_bessel_k": "K"}[e._name]
        v = w.funcs.apply("bessel_" + kind, d(ops[0]), d(ops[1]))
        if w.complex and kind in ("Y", "K"):
            # the second-kind functions are real only for positive real arguments: Y_0(-1) = Y_0(1) + 2i J_0(1), K_0(-1) = K_0(1) - i pi I_0(1)
            # (like sqrt / ln, a real argument may give a complex value)
            x = d(ops[1])
            x = x.re if isinstance(x, N.Cx) else x
            return N.Cx(v, w.funcs.apply("bessel_" + kind + "_im", d(ops[0]), N.base_value(x)))
        return v

    # ---- compound tensor algebra (textbook definitions; conjugation conventions of C06)
    if isinstance(e, C.Transposed):
        return d(ops[0], (comp[1], comp[0]))
    if isinstance(e, C.Outer):
        a, b = ops
        ra = len(a.ufl_shape)
        return N.mul(N.conj(d(a, comp[:ra])), d(b, comp[ra:]))
    if isinstance(e, C.Inner):
        a, b = ops
        tot = 0
        for c in components(a.ufl_shape):
            tot = N.add(tot, N.mul(d(a, c), N.conj(d(b, c))))
        return tot
    if isinstance(e, C.Dot):
        a, b = ops
        ra = len(a.ufl_shape)
        tot = 0
        for k in range(a.ufl_shape[-1]):
            tot = N.add(tot, N.mul(d(a, comp[:ra - 1] + (k,)), d(b, (k,) + comp[ra - 1:])))
        return tot
    if isinstance(e, C.Perp):
        return N.neg(d(ops[0], (1,))) if comp[0] == 0 else d(ops[0], (0,))
    if isinstance(e, C.Cross):
        a, b = ops
        tot = 0
        for j in range(3):
            for k in range(3):
                s = _perm_sign((comp[0], j, k))
                if s:
                    tot = N.add(tot, N.mul(s, N.mul(d(a, (j,)), d(b, (k,)))))
        return tot
    if isinstance(e, C.Trace):
        tot = 0
        for k in range(ops[0].ufl_shape[0]):
            tot = N.add(tot, d(ops[0], (k, k)))
        return tot
    if isinstance(e, C.Determinant):
        A = ops[0]
        if A.ufl_shape == ():
            return d(A)
        n = A.ufl_shape[0]
        if A.ufl_shape != (n, n):
            raise Unsupported("determinant of a non-square matrix as a spec")
        return leibniz_det(lambda r, c: d(A, (r, c)), n)
    if isinstance(e, C.Cofactor):
        A = ops[0]
        n = A.ufl_shape[0]
        return _cofactor(lambda r, c: d(A, (r, c)), n, comp[0], comp[1])
    if isinstance(e, C.Inverse):
        A = ops[0]
        if A.ufl_shape == ():
            a = d(A)
            w.require(N.cmp("!=", a, 0))
            return N.div(1, a)
        n = A.ufl_shape[0]
        if A.ufl_shape != (n, n):
            raise Unsupported("inverse of a non-square matrix as a spec")
        M = lambda r, c: d(A, (r, c))  # noqa: E731
        det = leibniz_det(M, n)
        w.require(N.cmp("!=", det, 0))
        # inverse = adjugate / det ; adjugate[i][j] = cofactor[j][i]
        return N.div(_cofactor(M, n, comp[1], comp[0]), det)
    if isinstance(e, C.Deviatoric):
        A = ops[0]
        n = A.ufl_shape[0]
        v = d(A, comp)
        if comp[0] == comp[1]:
            tr = 0
            for k in range(n):
                tr = N.add(tr, d(A, (k, k)))
            v = N.sub(v, N.div(tr, n))
        return v
    if isinstance(e, C.Skew):
        A = ops[0]
        return N.div(N.sub(d(A, comp), d(A, (comp[1], comp[0]))), 2)
    if isinstance(e, C.Sym):
        A = ops[0]
        return N.div(N.add(d(A, comp), d(A, (comp[1], comp[0]))), 2)

    # ---- restrictions
    if isinstance(e, C.PositiveRestricted):
        return den(w.on_side("+"), ops[0], comp, env)
    if isinstance(e, C.NegativeRestricted):
        return den(w.on_side("-"), ops[0], comp, env)

    # ---- derivatives (defined by dual numbers)
    if isinstance(e, (C.Grad, C.ReferenceGrad)):
        f = ops[0]
        kind = "x" if isinstance(e, C.Grad) else "X"
        return spatial_derivative(w, f, comp[:-1], env, comp[-1], kind)
    if isinstance(e, C.NablaGrad):
        return spatial_derivative(w, ops[0], comp[1:], env, comp[0], "x")
    if isinstance(e, (C.Div, C.ReferenceDiv)):
        f = ops[0]
        kind = "x" if isinstance(e, C.Div) else "X"
        tot = 0
        for k in range(f.ufl_shape[-1]):
            tot = N.add(tot, spatial_derivative(w, f, comp + (k,), env, k, kind))
        return tot
    if isinstance(e, C.NablaDiv):
        f = ops[0]
        tot = 0
        for k in range(f.ufl_shape[0]):
            tot = N.add(tot, spatial_derivative(w, f, (k,) + comp, env, k, "x"))
        return tot
    if isinstance(e, (C.Curl, C.ReferenceCurl)):
        f = ops[0]
        kind = "x" if isinstance(e, C.Curl) else "X"
        D = lambda c, k: spatial_derivative(w, f, c, env, k, kind)  # noqa: E731
        if f.ufl_shape == ():
            # 2D scalar: curl f = (df/dy, -df/dx)
            return D((), 1) if comp[0] == 0 else N.neg(D((), 0))
        if f.ufl_shape == (2,):
            return N.sub(D((1,), 0), D((0,), 1))
        if f.ufl_shape == (3,):
            tot = 0
            for j in range(3):
                for k in range(3):
                    s = _perm_sign((comp[0], j, k))
                    if s:
                        tot = N.add(tot, N.mul(s, D((k,), j)))
            return tot
        raise Unsupported("curl shape")
    if isinstance(e, C.VariableDerivative):
        f, v = ops
        rf = len(f.ufl_shape)
        if isinstance(v, C.Coefficient):
            cv = tuple(comp[rf:])

            def seed(desc, world):
                name, c_, idx, dirs = desc
                if dirs:
                    return None            # derivatives of the coefficient are held fixed (partial derivative)
                return ("const", 1 if tuple(c_) == cv else 0)
            layer = GateauxLayer({f"w{v.count()}": seed})
            return w.derive(layer, lambda w2: den(w2, f, comp[:rf], env))
        if not isinstance(v, C.Variable):
            raise Unsupported("VariableDerivative w.r.t. something that is neither a Variable nor a Coefficient")
        layer = VarLayer(v.label(), comp[rf:])
        return w.derive(layer, lambda w2: den(w2, f, comp[:rf], env))

    # ---- terminals other than literals
    if w.terminal_hook is not None:
        r = w.terminal_hook(w, e, comp, env)
        if r is not NotImplemented:
            return r
    raise Unsupported(f"no denotation for {type(e).__name__}")


def _raise(ex):
    raise ex


def spatial_derivative(w, f, comp, env, k, kind="x"):
    seed = getattr(w, "spatial_seed", None) or {}
    return w.derive(SpatialLayer(k, seed.get(kind, {}), kind), lambda w2: den(w2, f, comp, env))


def _cofactor(M, n, i, j):
    if n == 1:
        return 1
    rows = [r for r in range(n) if r != i]
    cols = [c for c in range(n) if c != j]
    minor = leibniz_det(lambda r, c: M(rows[r], cols[c]), n - 1)
    return minor if (i + j) % 2 == 0 else N.neg(minor)


def _power(w, a, bexpr, d):
    if isinstance(bexpr, C.Zero):
        return 1
    if isinstance(bexpr, C.IntValue) or (isinstance(bexpr, C.FloatValue) and float(bexpr._value).is_integer()):
        n = int(bexpr._value)
        if n >= 0:
            return N.ipow(a, n)
        w.require(N.cmp("!=", a, 0))
        return N.div(1, N.ipow(a, -n))
    if isinstance(a, N.Cx):
        raise Unsupported("non-integer power in complex mode")
    b = d(bexpr)
    if isinstance(b, N.Cx):
        raise Unsupported("complex exponent")
    if N.is_zero_const(a):
        # the base is the constant 0 (not in the domain a > 0 of the pow symbol): 0**b = 1 for b = 0, 0 for b > 0, undefined for b < 0
        w.require(N.cmp(">=", b, 0))
        return N.ite(N.cmp("==", b, 0), 1, 0)
    t = w.funcs.apply("pow", a, b)
    # rational constant exponent p/q: t > 0 and t^q = a^p (a > 0 is a side condition of pow)
    if isinstance(bexpr, C.ScalarValue) and w.symbolic:
        q = float_to_fraction(bexpr._value)
        if q.denominator <= 4 and abs(q.numerator) <= 6:
            tv, av = N.base_value(t), N.base_value(a)
            lhs = N.ipow(tv, q.denominator)
            rhs = N.ipow(av, abs(q.numerator))
            if q.numerator >= 0:
                w.extra_axioms.append(N.cmp("==", lhs, rhs))
            else:
                w.extra_axioms.append(N.cmp("==", N.mul(lhs, rhs), 1))
    return t


def _variable(w, e, comp, env):
    expr, label = e.ufl_operands
    hits = [i for i, L in enumerate(w.layers) if isinstance(L, VarLayer) and L.label == label]
    if not hits:
        return den(w, expr, comp, env)
    # independent variable of every matching layer: value = value of expr with those layers blind,
    # derivative along layer i = indicator(comp == cv_i)
    layers = list(w.layers)
    for i in hits:
        layers[i] = NullLayer()
    v = den(w.with_layers(layers), expr, comp, env)
    for i in hits:
        if tuple(comp) == w.layers[i].cv:
            v = N.add(v, _unit(len(w.layers), i))
    return v


def _unit(n, i):
    """Nested dual of depth n (outermost = layer 0) equal to eps_i (plain 0 stands for a zero nest)."""
    def build(level, hit):
        if level == n:
            return 1 if hit else 0
        if level == i:
            return N.Dual(0, build(level + 1, True))
        return N.Dual(build(level + 1, hit), 0)
    return build(0, False)


def cond(w, c, env):
    ops = c.ufl_operands
    if isinstance(c, C.BinaryCondition) and not isinstance(c, (C.AndCondition, C.OrCondition)):
        a, b = den(w, ops[0], (), env), den(w, ops[1], (), env)
        return N.cmp(c._name, a, b)
    if isinstance(c, C.AndCondition):
        return N.band(cond(w, ops[0], env), cond(w, ops[1], env))
    if isinstance(c, C.OrCondition):
        return N.bor(cond(w, ops[0], env), cond(w, ops[1], env))
    if isinstance(c, C.NotCondition):
        return N.bnot(cond(w, ops[0], env))
    raise Unsupported(f"condition {type(c).__name__}")
