/-! Lexicographic composition of three-way comparators.

`cmp_expr` compares two expressions by the first non-zero local comparison along a fixed
serialisation (type code, arity, terminal key; children last to first).  This file proves that such a
lexicographic comparator is a consistent total preorder whenever the token comparator is:
  * antisymmetric:  lex c xs ys = - lex c ys xs
  * transitive:     lex c xs ys ≤ 0 → lex c ys zs ≤ 0 → lex c xs zs ≤ 0
A three-way result is modelled as `Int` restricted to {-1, 0, 1} by the hypothesis `rng`. -/

namespace LexOrder

variable {T : Type}

/-- first non-zero token comparison; a shorter sequence that is a prefix sorts first -/
def lex (c : T → T → Int) : List T → List T → Int
  | [], [] => 0
  | [], _ :: _ => -1
  | _ :: _, [] => 1
  | x :: xs, y :: ys => if c x y = 0 then lex c xs ys else c x y

theorem lex_antisymm (c : T → T → Int) (anti : ∀ a b, c a b = - c b a) :
    ∀ xs ys, lex c xs ys = - lex c ys xs := by
  intro xs
  induction xs with
  | nil => intro ys; cases ys <;> simp [lex]
  | cons x xs ih =>
    intro ys
    cases ys with
    | nil => simp [lex]
    | cons y ys =>
      simp only [lex]
      have h := anti x y
      by_cases hxy : c x y = 0
      · have hyx : c y x = 0 := by omega
        simp [hxy, hyx, ih ys]
      · have hyx : c y x ≠ 0 := by omega
        simp [hyx, h]

/-- the token comparator only answers -1, 0 or 1 -/
def Ranged (c : T → T → Int) : Prop := ∀ a b, c a b = -1 ∨ c a b = 0 ∨ c a b = 1

theorem lex_ranged (c : T → T → Int) (rng : Ranged c) : ∀ xs ys, lex c xs ys = -1 ∨ lex c xs ys = 0 ∨ lex c xs ys = 1 := by
  intro xs
  induction xs with
  | nil => intro ys; cases ys <;> simp [lex]
  | cons x xs ih =>
    intro ys
    cases ys with
    | nil => simp [lex]
    | cons y ys =>
      simp only [lex]
      by_cases hxy : c x y = 0
      · simp [hxy, ih ys]
      · simp [hxy]; have := rng x y; omega

theorem lex_trans (c : T → T → Int)
    (anti : ∀ a b, c a b = - c b a)
    (trans : ∀ a b d, c a b ≤ 0 → c b d ≤ 0 → c a d ≤ 0)
    -- equivalence classes are congruent: a ~ b and b < d gives a < d (follows from trans + anti, stated for convenience)
    : ∀ xs ys zs, lex c xs ys ≤ 0 → lex c ys zs ≤ 0 → lex c xs zs ≤ 0 := by
  intro xs
  induction xs with
  | nil =>
    intro ys zs _ _
    cases zs <;> simp [lex]
  | cons x xs ih =>
    intro ys zs h1 h2
    cases ys with
    | nil => simp [lex] at h1
    | cons y ys =>
      cases zs with
      | nil => simp [lex] at h2
      | cons z zs =>
        simp only [lex] at h1 h2 ⊢
        by_cases hxy : c x y = 0
        · by_cases hyz : c y z = 0
          · -- x ~ y ~ z
            have hxz1 : c x z ≤ 0 := trans x y z (by omega) (by omega)
            have hzy : c z y = 0 := by have := anti y z; omega
            have hyx : c y x = 0 := by have := anti x y; omega
            have hzx1 : c z x ≤ 0 := trans z y x (by omega) (by omega)
            have hxz : c x z = 0 := by have := anti x z; omega
            simp [hxy] at h1
            simp [hyz] at h2
            simp [hxz]
            exact ih ys zs h1 h2
          · -- x ~ y, y < z  (h2 : c y z ≤ 0)
            simp [hyz] at h2
            have hxz1 : c x z ≤ 0 := trans x y z (by omega) h2
            have hxz : c x z ≠ 0 := by
              intro h0
              have hzx : c z x = 0 := by have := anti x z; omega
              have : c z y ≤ 0 := trans z x y (by omega) (by omega)
              have := anti y z
              omega
            simp [hxz]; exact hxz1
        · simp [hxy] at h1
          by_cases hyz : c y z = 0
          · -- x < y ~ z
            have hxz1 : c x z ≤ 0 := trans x y z h1 (by omega)
            have hxz : c x z ≠ 0 := by
              intro h0
              have hzx : c z x = 0 := by have := anti x z; omega
              have : c y x ≤ 0 := trans y z x (by omega) (by omega)
              have := anti x y
              omega
            simp [hxz]; exact hxz1
          · simp [hyz] at h2
            have hxz1 : c x z ≤ 0 := trans x y z h1 h2
            have hxz : c x z ≠ 0 := by
              intro h0
              have hzx : c z x = 0 := by have := anti x z; omega
              have : c y x ≤ 0 := trans y z x h2 (by omega)
              have := anti x y
              omega
            simp [hxz]; exact hxz1

end LexOrder
