/-! Structural induction glue: local soundness of a rule table implies global soundness
    of its recursive (bottom-up) application. -/

inductive Tree (L : Type) where
  | node : L → List (Tree L) → Tree L

namespace Tree

variable {L V : Type}

/-- bottom-up rewriting with handler table `h` -/
def rw (h : L → List (Tree L) → Tree L) : Tree L → Tree L
  | node l ts => h l (rwList h ts)
where
  rwList (h : L → List (Tree L) → Tree L) : List (Tree L) → List (Tree L)
  | [] => []
  | t :: ts => rw h t :: rwList h ts

/-- pointwise relation between two lists of trees through `sem` -/
inductive RelList (sem : Tree L → V) (R : V → V → Prop) : List (Tree L) → List (Tree L) → Prop
  | nil : RelList sem R [] []
  | cons {t t' ts ts'} : R (sem t) (sem t') → RelList sem R ts ts' → RelList sem R (t :: ts) (t' :: ts')

theorem rw_sound (sem : Tree L → V) (R : V → V → Prop)
    (h : L → List (Tree L) → Tree L)
    (local_sound : ∀ l ts ts', RelList sem R ts ts' → R (sem (node l ts)) (sem (h l ts'))) :
    ∀ t, R (sem t) (sem (rw h t)) := by
  intro t
  induction t using Tree.rec (motive_2 := fun ts => RelList sem R ts (rw.rwList h ts)) with
  | node l ts ih =>
    simp only [rw]
    exact local_sound l ts _ ih
  | nil => exact RelList.nil
  | cons t ts iht ihts => exact RelList.cons iht ihts

end Tree
