#!/usr/bin/env python3
"""Confirm a seeded change produced by a sub-agent and run the checks against it.

usage: tools_seed_eval.py <PID> <seed-dir> [--name NAME] [--checks C01,C05,...] [--keep]

 1. fresh scratch worktree of /repo (under /tmp), apply patch.diff, run the pinned test suite (must pass), run demo.py (must exit 1);
    demo.py on the clean scratch tree must exit 0;
 2. apply the patch to /repo itself, run ./check for the property (and any extra checks), undo with `git checkout -- .`;
 3. store patch.diff, demo.py, meta.json (+ results) under /verif/seeded/<NAME>/.
Nothing is ever committed to /repo.
"""
import json
import os
import shutil
import subprocess
import sys

VERIF = os.path.dirname(os.path.abspath(__file__))
REPO = "/repo"


def sh(cmd, **kw):
    return subprocess.run(cmd, shell=True, capture_output=True, text=True, **kw)


def main():
    args = sys.argv[1:]
    pid, seed = args[0], args[1]
    name = pid.lower() + "-a"
    checks = [pid]
    if "--name" in args:
        name = args[args.index("--name") + 1]
    if "--checks" in args:
        checks = args[args.index("--checks") + 1].split(",")
    patch = os.path.join(seed, "patch.diff")
    demo = os.path.join(seed, "demo.py")
    meta = json.load(open(os.path.join(seed, "meta.json"))) if os.path.exists(os.path.join(seed, "meta.json")) else {}
    if not os.path.exists(patch) or os.path.getsize(patch) == 0:
        print("no patch")
        return 2
    wt = f"/tmp/seedverify_{name}"
    sh(f"git -C {REPO} worktree remove --force {wt}")
    shutil.rmtree(wt, ignore_errors=True)
    r = sh(f"git -C {REPO} worktree add --detach {wt} HEAD -q")
    if r.returncode:
        print("worktree failed", r.stderr)
        return 2
    res = {"property": pid, "name": name}
    try:
        # demo text with paths rewritten to the scratch tree
        src = open(demo).read()
        orig_root = os.path.dirname(os.path.abspath(seed))
        local_demo = os.path.join(wt, "_demo.py")
        open(local_demo, "w").write(src.replace(orig_root, wt))
        env = dict(os.environ, PYTHONPATH=wt)
        r0 = sh(f"/venv/bin/python {local_demo}", env=env, cwd=wt, timeout=600)
        res["demo_clean_exit"] = r0.returncode
        ra = sh(f"git -C {wt} apply {patch}")
        if ra.returncode:
            print("patch does not apply:", ra.stderr[:500])
            return 2
        rt = sh("/venv/bin/python -m pytest -q -p no:cacheprovider -n 8 test/", env=env, cwd=wt, timeout=1800)
        tail = rt.stdout.strip().splitlines()[-1] if rt.stdout.strip() else rt.stderr[-200:]
        res["tests"] = tail
        res["tests_pass"] = rt.returncode == 0
        r1 = sh(f"/venv/bin/python {local_demo}", env=env, cwd=wt, timeout=600)
        res["demo_patched_exit"] = r1.returncode
        res["demo_output"] = (r1.stdout + r1.stderr)[-1500:]
    finally:
        sh(f"git -C {REPO} worktree remove --force {wt}")
        shutil.rmtree(wt, ignore_errors=True)
    ok = res.get("tests_pass") and res.get("demo_patched_exit") == 1 and res.get("demo_clean_exit") == 0
    res["confirmed"] = bool(ok)
    print(json.dumps({k: v for k, v in res.items() if k != "demo_output"}, indent=1))
    if not ok:
        print(res.get("demo_output", "")[-800:])
        if "--force" not in args:
            return 1
    # ---- run the checks against /repo with the patch applied
    st = sh(f"git -C {REPO} status --porcelain").stdout.strip()
    if st:
        print("refusing: /repo is not clean:", st)
        return 2
    caught = {}
    ra = sh(f"git -C {REPO} apply {patch}")
    try:
        if ra.returncode:
            print("patch does not apply to /repo", ra.stderr[:300])
            return 2
        for c in checks:
            rc = sh(f"./check {c}", cwd=VERIF, timeout=3600, env=dict(os.environ, VERIF_OUT_DIR=f"/tmp/seedout_{name}"))
            lines = [ln for ln in rc.stdout.splitlines() if ln.startswith("VIOLATION") or ln.startswith("[")]
            caught[c] = {"exit": rc.returncode, "violations": [ln for ln in lines if ln.startswith("VIOLATION")][:8], "summary": [ln for ln in lines if ln.startswith("[")][-1:]}
    finally:
        sh(f"git -C {REPO} checkout -- .")
        sh(f"git -C {REPO} clean -fdq -- ufl")
        shutil.rmtree(f"/tmp/seedout_{name}", ignore_errors=True)
    res["checks"] = caught
    res["caught_by"] = [c for c, v in caught.items() if v["exit"] == 1 and v["violations"]]
    print(json.dumps({"caught_by": res["caught_by"], "checks": {c: (v["exit"], len(v["violations"])) for c, v in caught.items()}}))
    out = os.path.join(VERIF, "seeded", name)
    os.makedirs(out, exist_ok=True)
    shutil.copy(patch, os.path.join(out, "patch.diff"))
    open(os.path.join(out, "demo.py"), "w").write(open(demo).read().replace(os.path.dirname(os.path.abspath(seed)), "/repo"))
    meta.update({"property": pid, "confirmed": res["confirmed"], "tests": res.get("tests"), "demo_exit_patched": res.get("demo_patched_exit"), "demo_exit_clean": res.get("demo_clean_exit"),
                 "checks_run": {c: {"exit": v["exit"], "violations": v["violations"]} for c, v in caught.items()}, "caught_by": res["caught_by"]})
    json.dump(meta, open(os.path.join(out, "meta.json"), "w"), indent=1)
    return 0


if __name__ == "__main__":
    sys.exit(main())
