#!/usr/bin/env python3
"""Print the markdown table of seeded changes (from /verif/seeded/*/meta.json) for DESIGN.md section 10.6."""
import glob
import json
import os

rows = []
for d in sorted(glob.glob(os.path.join(os.path.dirname(os.path.abspath(__file__)), "seeded", "*"))):
    mp = os.path.join(d, "meta.json")
    if not os.path.exists(mp):
        continue
    m = json.load(open(mp))
    files = m.get("files")
    files = ", ".join(os.path.basename(f) for f in files) if isinstance(files, list) else str(files)
    caught = ", ".join(m.get("caught_by") or []) or "**missed**"
    obl = []
    for c, v in (m.get("checks_run") or {}).items():
        for ln in v.get("violations", [])[:2]:
            obl.append(ln.split("replay=")[-1].split("/replays/")[-1].replace(".json", "").replace(" no-failing-input-found", ""))
    rows.append((os.path.basename(d), m.get("property"), (m.get("summary") or "").replace("|", "/")[:230], files, caught, "; ".join(obl[:2])[:160]))
print("| seed | property | change | file | caught by | failing obligations (first two) |")
print("|---|---|---|---|---|---|")
for r in rows:
    print("| " + " | ".join(str(x) for x in r) + " |")
