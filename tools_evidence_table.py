#!/usr/bin/env python3
"""Rewrite the numeric columns of DESIGN.md section 10.2 from evidence/*.json (run after the clean-tree quick runs).

Only the cells "obligations (proved / bounded)" and "level" are rewritten; the prose column is kept.
"""
import json
import os
import re

VERIF = os.path.dirname(os.path.abspath(__file__))


def main():
    path = os.path.join(VERIF, "DESIGN.md")
    lines = open(path).read().split("\n")
    out = []
    for ln in lines:
        m = re.match(r"^\| (C\d\d) \| (c\d\d\.py) \| ([^|]*) \| (.*) \| (\w+) \|$", ln)
        if m:
            pid = m.group(1)
            ev = os.path.join(VERIF, "evidence", pid + ".json")
            if os.path.exists(ev):
                e = json.load(open(ev))
                c = e["coverage"]
                nb = len(c.get("bounded_standins", []))
                nk = len(c.get("known_findings", []))
                proved = c["discharged"]   # proof/values obligations proved; bounded stand-ins are counted separately
                cell = f"{proved} / {nb}" + (f" (+{nk} known finding{'s' if nk > 1 else ''})" if nk else "")
                ln = f"| {pid} | {m.group(2)} | {cell} | {m.group(4)} | {e['level']} |"
        out.append(ln)
    open(path, "w").write("\n".join(out))


if __name__ == "__main__":
    main()
