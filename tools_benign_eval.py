#!/usr/bin/env python3
"""Run checks against a behaviour-preserving change: they must all stay green (no false alarm).
usage: tools_benign_eval.py <NAME> <patch.diff> C01,C02,...   -> writes /verif/seeded/benign/<NAME>.json"""
import json
import os
import subprocess
import sys

VERIF = os.path.dirname(os.path.abspath(__file__))


def sh(cmd, **kw):
    return subprocess.run(cmd, shell=True, capture_output=True, text=True, **kw)


name, patch, checks = sys.argv[1], sys.argv[2], sys.argv[3].split(",")
if os.environ.get("BENIGN_WORKTREE") != "1" and sh("git -C /repo status --porcelain").stdout.strip():
    sys.exit("refusing: /repo not clean")
wt = f"/tmp/benverify_{name}"
sh(f"git -C /repo worktree remove --force {wt}")
sh(f"git -C /repo worktree add --detach {wt} HEAD -q")
try:
    if sh(f"git -C {wt} apply {patch}").returncode:
        sys.exit("patch does not apply")
    rt = sh("/venv/bin/python -m pytest -q -p no:cacheprovider -n 8 test/", env=dict(os.environ, PYTHONPATH=wt), cwd=wt, timeout=1800)
    tests = rt.stdout.strip().splitlines()[-1] if rt.stdout.strip() else "?"
finally:
    sh(f"git -C /repo worktree remove --force {wt}")
res = {"name": name, "tests": tests, "checks": {}}
# BENIGN_WORKTREE=1: run the checks against a scratch worktree carrying the patch (VERIF_REPO) instead of patching /repo itself, so that several
# behaviour-preserving patches can be evaluated side by side
USE_WT = os.environ.get("BENIGN_WORKTREE") == "1"
wt2 = f"/tmp/benrun_{name}"
if USE_WT:
    sh(f"git -C /repo worktree remove --force {wt2}")
    sh(f"git -C /repo worktree add --detach {wt2} HEAD -q")
    if sh(f"git -C {wt2} apply {patch}").returncode:
        sys.exit("patch does not apply")
    res["mode"] = "scratch worktree (VERIF_REPO)"
elif sh(f"git -C /repo apply {patch}").returncode:
    sys.exit("patch does not apply to /repo")
try:
    for c in checks:
        rc = sh(f"./check {c}", cwd=VERIF, timeout=3600, env=dict(os.environ, VERIF_OUT_DIR=f"/tmp/benout_{name}", **({"VERIF_REPO": wt2} if USE_WT else {})))
        lines = [ln for ln in rc.stdout.splitlines() if ln.startswith(("VIOLATION", "[", "CHECKER"))]
        res["checks"][c] = {"exit": rc.returncode, "lines": lines[-6:]}
        if rc.returncode != 0:
            # keep the replay details for diagnosis
            for ln in lines:
                if "replay=" in ln:
                    p = ln.split("replay=")[1].split()[0]
                    try:
                        res["checks"][c].setdefault("details", []).append(json.load(open(p))["detail"][:500])
                    except Exception:
                        pass
finally:
    if USE_WT:
        sh(f"git -C /repo worktree remove --force {wt2}")
    else:
        sh("git -C /repo checkout -- .")
        sh("git -C /repo clean -fdq -- ufl")
    sh(f"rm -rf /tmp/benout_{name}")
os.makedirs(os.path.join(VERIF, "seeded", "benign"), exist_ok=True)
json.dump(res, open(os.path.join(VERIF, "seeded", "benign", name + ".json"), "w"), indent=1)
print(json.dumps({"tests": tests, "checks": {c: v["exit"] for c, v in res["checks"].items()}}))
for c, v in res["checks"].items():
    if v["exit"]:
        print(c, v["lines"], v.get("details", [])[:3])
